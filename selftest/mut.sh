#!/bin/sh
# usage: selftest/mut.sh <patch-file> <check-id>...   : apply patch to /repo, run checks, revert
P="$1"; shift
git -C /repo apply "$P" || exit 2
for id in "$@"; do (cd /verif && ./check "$id" 2>&1 | grep -E "VIOLATION|KNOWN|MACHINERY|^C[0-9]+:" | head -${MUT_LINES:-6}); done
git -C /repo checkout -- .
git -C /repo status --short
