#!/bin/sh
# usage: selftest/mut.sh <patch-file> <check-id>...
# applies the patch to a SCRATCH worktree of /repo HEAD (never /repo itself), runs the checks against it
# (VERIF_REPO) with evidence/replays redirected (VERIF_OUT), removes the worktree.
P="$1"; shift
W=$(mktemp -d /tmp/mut.XXXXXX)
git -C /repo worktree add -q --detach "$W/wt" HEAD || exit 2
if ! git -C "$W/wt" apply "$P"; then echo "patch does not apply"; git -C /repo worktree remove --force "$W/wt"; rm -rf "$W"; exit 2; fi
for id in "$@"; do (cd /verif && VERIF_REPO="$W/wt" VERIF_OUT="$W/out" ./check "$id" 2>&1 | grep -E "^VIOLATION|MACHINERY|^C[0-9]+:" | cut -c1-200 | head -${MUT_LINES:-6}); done
git -C /repo worktree remove --force "$W/wt"; rm -rf "$W"
