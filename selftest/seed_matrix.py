#!/usr/bin/env python3
"""Runs the checks against every seeded change (seeded/<id>/patch.diff) and every catalogue mutant
(selftest/mutants/*.patch) on a SCRATCH worktree of /repo HEAD (never /repo itself), and writes
selftest/RESULTS.md.   usage: selftest/seed_matrix.py [--all-checks] [ids...]"""
import json
import os
import shutil
import subprocess
import sys
import tempfile

ROOT = os.path.dirname(os.path.dirname(os.path.abspath(__file__)))
RELATED = {  # checks worth running besides the seed's own property
    'C01': ['C06'], 'C02': [], 'C03': ['C16'], 'C04': ['C15'], 'C05': ['C03'], 'C06': [], 'C07': [], 'C08': ['C14'],
    'C09': [], 'C10': [], 'C11': ['C12'], 'C12': ['C11'], 'C13': ['C15'], 'C14': [], 'C15': [], 'C16': ['C03'],
    'C17': [], 'C18': [], 'C19': [], 'C20': [],
}
RELATED.update({'C01': ['C06'], 'C09': ['C10'], 'C14': ['C08'], 'C04': ['C17', 'C07'], 'C12': ['C11'], 'C05': ['C03'], 'C03': ['C05']})


def run_checks(wt, out, ids):
    res = {}
    env = dict(os.environ, VERIF_REPO=wt, VERIF_OUT=out, VERIF_TIER='quick')
    for cid in ids:
        p = subprocess.run([os.path.join(ROOT, 'check'), cid], cwd=ROOT, env=env, stdout=subprocess.PIPE, stderr=subprocess.STDOUT, text=True)
        v = [l for l in p.stdout.splitlines() if l.startswith('VIOLATION')]
        what = [l.strip() for l in p.stdout.splitlines() if l.strip().startswith('what:')]
        res[cid] = {'rc': p.returncode, 'violations': len(v), 'first': what[0][:200] if what else ''}
    return res


def main():
    args = [a for a in sys.argv[1:] if not a.startswith('--')]
    allc = '--all-checks' in sys.argv
    own = '--own' in sys.argv          # only the check of the seed's own property
    items = []
    for d in sorted(os.listdir(os.path.join(ROOT, 'seeded'))):
        pd = os.path.join(ROOT, 'seeded', d, 'patch.diff')
        if os.path.exists(pd) and (not args or d in args or 'seeds' in args):
            items.append(('seed:' + d, d[:3], pd))
    mdir = os.path.join(ROOT, 'selftest', 'mutants')
    for f in sorted(os.listdir(mdir)):
        if f.endswith('.patch') and (not args or f.split('_')[0] in args or 'mutants' in args):
            prop = {'M01b': 'C01', 'M02': 'C01', 'M03': 'C01', 'M04': 'C01', 'M05': 'C01', 'M06': 'C02', 'M07': 'C02', 'M08': 'C03',
                    'M10': 'C04', 'M11': 'C05', 'M12': 'C06', 'M14a': 'C08', 'M14b': 'C08', 'M14c': 'C08', 'M15': 'C09', 'M16': 'C10',
                    'M17a': 'C12', 'M17b': 'C11', 'M18': 'C13', 'M19': 'C15', 'M20': 'C16', 'M21': 'C17', 'M23': 'C19', 'M24': 'C20',
                    'M25': 'C08'}.get(f.split('_')[0], 'C01')
            items.append(('mutant:' + f[:-6], prop, os.path.join(mdir, f)))
    base = tempfile.mkdtemp(prefix='matrix-', dir='/tmp')
    rows = []
    try:
        for name, prop, patch in items:
            wt = os.path.join(base, 'wt')
            subprocess.check_call(['git', '-C', '/repo', 'worktree', 'add', '-q', '--detach', wt, 'HEAD'])
            try:
                a = subprocess.run(['git', 'apply', patch], cwd=wt)
                if a.returncode != 0:
                    rows.append((name, prop, {'_': {'rc': 'patch does not apply', 'violations': 0, 'first': ''}}))
                    continue
                ids = sorted(set([prop] + ([] if own else (RELATED.get(prop, []) if not allc else ['C%02d' % i for i in range(1, 21)]))))
                out = os.path.join(base, 'out')
                r = run_checks(wt, out, ids)
                rows.append((name, prop, r))
                print(name, {k: v['violations'] for k, v in r.items()}, flush=True)
                if name.startswith('seed:'):
                    mp = os.path.join(ROOT, 'seeded', name[5:], 'meta.json')
                    if os.path.exists(mp):
                        m = json.load(open(mp))
                        m['detected_by'] = sorted(k for k, v in r.items() if v['violations'] > 0)
                        m['ran'] = './check <id> --tier quick with VERIF_REPO=<scratch worktree with the patch>: ' + ', '.join('%s -> %d violation signature(s)' % (k, v['violations']) for k, v in sorted(r.items()))
                        json.dump(m, open(mp, 'w'), indent=1)
            finally:
                subprocess.call(['git', '-C', '/repo', 'worktree', 'remove', '--force', wt])
    finally:
        shutil.rmtree(base, ignore_errors=True)
    resname = next((a.split('=', 1)[1] for a in sys.argv[1:] if a.startswith('--out=')), 'RESULTS.md')
    with open(os.path.join(ROOT, 'selftest', resname), 'w') as f:
        f.write('# Seeded changes and catalogue mutants vs. the checks (quick tier)\n\n')
        f.write('Each change is applied to a scratch worktree of /repo HEAD; a check "catches" it when it prints VIOLATION lines.\n\n')
        f.write('| change | property | caught by | not caught by | first violation |\n|---|---|---|---|---|\n')
        for name, prop, r in rows:
            caught = [k for k, v in sorted(r.items()) if v['violations'] > 0]
            missed = [k + (' (MACHINERY FAILURE, exit %s: a miss caused by the harness itself)' % v['rc'] if v['rc'] not in (0, 1) else '')
                      for k, v in sorted(r.items()) if v['violations'] == 0]
            first = next((v['first'] for k, v in sorted(r.items()) if v['first']), '')
            f.write('| %s | %s | %s | %s | %s |\n' % (name, prop, ', '.join(caught) or '-', ', '.join(missed) or '-', first.replace('|', '\\|')))
    print('written selftest/RESULTS.md')


if __name__ == '__main__':
    main()
