#!/bin/sh
# false-alarm hunting with the deep random family: thorough tier of the semantic checks under several seeds
cd "$(dirname "$0")/.."
for s in "$@"; do echo "=== VERIF_SEED=$s"; VERIF_SEED=$s selftest/run_all.sh thorough C08 C09 C10 C13 C14; done
