#!/usr/bin/env python3
"""usage: selftest/seed_round.py <round dir, e.g. /tmp/seed5> [ids...]
Prepares one scratch worktree of /repo HEAD and one prompt per property for a round of independently written
property-breaking changes (the prompts contain the property text, the paths, and one line per earlier seed of that
property so that the new change uses another mechanism; nothing about /verif's checks)."""
import json
import os
import re
import subprocess
import sys

ROOT = os.path.dirname(os.path.dirname(os.path.abspath(__file__)))
rd = sys.argv[1]
ids = sys.argv[2:] or ['C%02d' % i for i in range(1, 21)]
props = {json.loads(l)['id']: json.loads(l) for l in open(os.path.join(ROOT, 'properties.jsonl'))}
HINTS = {}
hp = os.path.join(rd, 'hints.json')
if os.path.exists(hp):
    HINTS = json.load(open(hp))
TEMPLATE = open(os.path.join(ROOT, 'selftest', 'seed_prompt.txt')).read()
for pid in ids:
    d = os.path.join(rd, pid)
    os.makedirs(os.path.join(d, 'out'), exist_ok=True)
    wt = os.path.join(d, 'wt')
    if not os.path.exists(wt):
        subprocess.check_call(['git', '-C', '/repo', 'worktree', 'add', '-q', '--detach', wt, 'HEAD'])
    earlier = []
    for s in sorted(os.listdir(os.path.join(ROOT, 'seeded'))):
        if s.startswith(pid):
            n = os.path.join(ROOT, 'seeded', s, 'notes.md')
            if os.path.exists(n):
                t = open(n).read()
                head = next((l.lstrip('# ').strip() for l in t.splitlines() if l.startswith('#')), '')
                files = sorted(set(re.findall(r'src/hpl/[\w/]+\.(?:py|lark)', open(os.path.join(ROOT, 'seeded', s, 'patch.diff')).read())))
                earlier.append('- %s (%s)' % (head, ', '.join(files)))
    p = props[pid]
    hint = HINTS.get(pid)
    txt = TEMPLATE.format(id=pid, title=p['title'], statement=p['statement'], wt=wt, out=os.path.join(d, 'out'),
                          earlier='\n'.join(earlier) or '- (none)')
    if hint:
        txt = txt.replace('\n4. Write into', '\n   For this round, make the change inside (or directly around) one of these functions, which no earlier change has touched: %s.\n4. Write into' % hint)
    open(os.path.join(d, 'prompt.txt'), 'w').write(txt)
    print(pid, 'ready', wt)
