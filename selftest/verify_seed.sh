#!/bin/sh
# usage: selftest/verify_seed.sh <ID>  -- confirms a seeded change in a scratch worktree of /repo HEAD:
#   (1) patch applies, (2) 49 tests pass with it, (3) demo exits !=0 with it, (4) demo exits 0 without it.
ID="$1"; S=/verif/seeded/$ID; W=$(mktemp -d /tmp/vseed.XXXXXX)
git -C /repo worktree add -q --detach "$W/wt" HEAD || exit 2
cd "$W/wt"
R="applies=no"
if git apply "$S/patch.diff" 2>/dev/null || git apply -3 "$S/patch.diff" 2>/dev/null; then
  R="applies=yes"
  T=$(PYTHONPATH=$W/wt/src /venv/bin/python -m pytest -q -p no:cacheprovider --timeout=900 2>&1 | tail -1)
  case "$T" in *failed*) rm -rf .hypothesis; T="(rerun after a failure, the suite has a flaky Hypothesis test) $(PYTHONPATH=$W/wt/src /venv/bin/python -m pytest -q -p no:cacheprovider --timeout=900 2>&1 | tail -1)";; esac
  PYTHONPATH=$W/wt/src /venv/bin/python "$S/demo.py" >/dev/null 2>&1; D1=$?
  git checkout -q -- . ; git stash -q 2>/dev/null
  PYTHONPATH=$W/wt/src /venv/bin/python "$S/demo.py" >/dev/null 2>&1; D0=$?
  R="$R tests=[$T] demo_with_patch_exit=$D1 demo_without_patch_exit=$D0"
fi
cd /; git -C /repo worktree remove --force "$W/wt"; rm -rf "$W"
echo "$ID $R"
