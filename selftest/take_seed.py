#!/usr/bin/env python3
"""usage: selftest/take_seed.py <round dir, e.g. /tmp/seed4> <ID> <suffix> [extra check ids...]
Stores a seeded change produced by a sub-agent under seeded/<ID><suffix>/, writes meta.json from its notes,
removes the agent's scratch worktree and runs the property's check (plus extras) against the change
on a scratch worktree (selftest/mut.sh)."""
import json
import os
import re
import shutil
import subprocess
import sys

ROOT = os.path.dirname(os.path.dirname(os.path.abspath(__file__)))
rd, pid, suf = sys.argv[1], sys.argv[2], sys.argv[3]
extra = sys.argv[4:]
src = os.path.join(rd, pid, 'out')
dst = os.path.join(ROOT, 'seeded', pid + suf)
os.makedirs(dst, exist_ok=True)
for f in os.listdir(src):
    shutil.copy(os.path.join(src, f), os.path.join(dst, f))
dp = os.path.join(dst, 'demo.py')
if os.path.exists(dp):
    s = open(dp).read()
    s = re.sub(r'/tmp/seed\d*/[A-Z0-9]+/wt', '.', s)
    open(dp, 'w').write(s)
notes = open(os.path.join(dst, 'notes.md')).read() if os.path.exists(os.path.join(dst, 'notes.md')) else ''
paras = [p.strip() for p in re.split(r'\n\s*\n', notes) if p.strip() and not p.strip().startswith('#')]
meta = {'property': pid, 'breaks': ' '.join(paras[0].split())[:700] if paras else '',
        'needs_to_manifest': next((' '.join(p.split())[:500] for p in paras if re.search(r'(?i)trigger|manifest|needs', p)), ''),
        'origin': 'round %s: written by an independent sub-agent given only the property text, its own scratch worktree and the sites of the earlier seeds' % rd[-1],
        'confirmed': 'selftest/verify_seed.sh %s%s on a scratch worktree of /repo HEAD' % (pid, suf), 'detected_by': []}
subprocess.call(['git', '-C', '/repo', 'worktree', 'remove', '--force', os.path.join(rd, pid, 'wt')])
env = dict(os.environ, MUT_LINES='2')
out = subprocess.run([os.path.join(ROOT, 'selftest', 'mut.sh'), os.path.join(dst, 'patch.diff'), pid] + extra, env=env,
                     stdout=subprocess.PIPE, stderr=subprocess.STDOUT, text=True).stdout
print(out[-1500:])
meta['detected_by'] = sorted(set(re.findall(r'VIOLATION property=(C\d+)', out)))
meta['ran'] = 'selftest/mut.sh seeded/%s%s/patch.diff %s' % (pid, suf, ' '.join([pid] + extra))
json.dump(meta, open(os.path.join(dst, 'meta.json'), 'w'), indent=1)
print('stored', dst, 'detected_by', meta['detected_by'])
