#!/bin/sh
# usage: selftest/run_all.sh quick|thorough [ids...]   -- runs the registered checks one after another, prints rc and wall time
TIER="$1"; shift
IDS="$@"; [ -z "$IDS" ] && IDS="C01 C02 C03 C04 C05 C06 C07 C08 C09 C10 C11 C12 C13 C14 C15 C16 C17 C18 C19 C20"
cd "$(dirname "$0")/.."
for id in $IDS; do
  S=$(date +%s)
  ./check $id --tier $TIER > /tmp/run_all_$id.log 2>&1; RC=$?
  E=$(date +%s)
  echo "$id rc=$RC wall=$((E-S))s $(grep -c '^VIOLATION' /tmp/run_all_$id.log) violations; $(tail -1 /tmp/run_all_$id.log | cut -c1-160)"
done
