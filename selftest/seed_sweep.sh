#!/bin/sh
# usage: selftest/seed_sweep.sh <tier> <seed>...  -- all checks under several VERIF_SEED values (false-alarm hunting)
TIER="$1"; shift
cd "$(dirname "$0")/.."
for s in "$@"; do echo "=== VERIF_SEED=$s"; VERIF_SEED=$s selftest/run_all.sh $TIER; done
