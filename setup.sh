#!/bin/sh
# setup_cmd: offline; verifies the tools, parses every module of the specification with SANY.
set -e
HERE="$(cd "$(dirname "$0")" && pwd)"
cd "$HERE"
java -version 2>&1 | head -1
test -f /opt/veriftools/tla/tla2tools.jar
/venv/bin/python -c "import lark, attrs, typeguard; print('python deps ok')"
mkdir -p build evidence replays
/venv/bin/python - <<'PY'
import os, sys
sys.path.insert(0, os.getcwd())
from harness import tlc
bad = 0
for f in sorted(os.listdir('spec')):
    if f.endswith('.tla'):
        ok, out = tlc.sany(f[:-4])
        print('SANY', f, 'ok' if ok else 'FAILED')
        if not ok:
            print(out[-1500:]); bad += 1
sys.exit(1 if bad else 0)
PY
