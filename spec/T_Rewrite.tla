------------------------------- MODULE T_Rewrite -------------------------------
(* Trace validation of the rewriting functions against their relational              *)
(* post-conditions (C08 simplify; the same event format serves C09, C10, C13).        *)
(* event: [id, op, in (projected input), outs (sequence of projected outputs),        *)
(*         out ("ok" | exception class), rhos (sequence of valuations), ...]           *)
EXTENDS TraceBatch, HplEval
VARIABLES l, judged, skippedU, skippedO, skippedR
vars == <<l, judged, skippedU, skippedO, skippedR>>

IsPred(n) == n.cls \in PredClasses
TypeOf(n) == IF IsPred(n) THEN T_BOOL ELSE DT(n)

\* results of the equivalence obligation on every valuation
Judgements(in, out, rhos) == [i \in 1..Len(rhos) |-> Equiv1(in, out, rhos[i])]

Count(js, what) == Cardinality({i \in 1..Len(js) : js[i] = what})

\* a constant (reference-free) sub-term that is undefined, or a division by an identically zero divisor
RECURSIVE HasRefs(_)
HasRefs(n) == \E x \in Nodes(n) : x.cls \in {"HplThisMessage", "HplVarReference"}
EmptyRho == [this |-> <<"msg", [a \in {} |-> 0]>>, vars |-> [a \in {} |-> 0]]
ArithmeticErrors == {"ValueError", "ZeroDivisionError", "OverflowError", "typeguard.TypeCheckError"}
MayRaise(in, rhos, out) ==
  \/ \E x \in Nodes(in) :
        \/ (IsExpr(x) /\ ~HasRefs(x) /\ Eval(x, EmptyRho, TRUE)[1] \in {"U", "O", "R"})
        \/ (x.cls = "HplBinaryOperator" /\ x.operator = "/"
              /\ \A i \in 1..Len(rhos) : LET d == Eval(x.operand2, rhos[i], FALSE) IN d[1] # "n" \/ d[2] = 0)
  \* the input evaluates without error under NO valuation of the grid (e.g. sqrt(0 - xs[0] ** 0)): the statement
  \* puts no obligation on such an input, and folding its constant core is what exposes the undefined constant.
  \* That is a matter of arithmetic: a TypeError (or anything else) raised by simplify on an AST the parser accepted
  \* is not excused by it.
  \/ (out \in ArithmeticErrors /\ Len(rhos) > 0 /\ \A i \in 1..Len(rhos) : Eval(in, rhos[i], TRUE)[1] \in {"U", "O", "R"})

SimplifyVerdict(e, js) ==
  IF e.out # "ok" THEN
       (IF MayRaise(e.in, e.rhos, e.out) THEN {} ELSE {"Raises:" \o e.out})
  ELSE LET o == e.outs[1] IN
       (IF IsPred(e.in) # IsPred(o) THEN {"SameKind"} ELSE {})
       \cup (IF TypeOf(e.in) # TypeOf(o) THEN {"SameType"} ELSE {})
       \cup {"WT." \o c : c \in WT(o)}
       \cup (IF \E i \in 1..Len(js) : js[i] = "differ" THEN {"Equivalent"} ELSE {})
       \cup (IF \E i \in 1..Len(js) : js[i] = "undef" THEN {"OutputDefined"} ELSE {})
       \cup (IF IsPred(o) /\ o.cls = "HplPredicateExpression" /\ o.expression.cls = "HplLiteral"
             THEN {"VacuousWhenLiteral"} ELSE {})

(* ---------------------------------------------------------------- split_and (C09) *)
IsOp(n, op) == n.cls \in {"HplBinaryOperator", "HplUnaryOperator"} /\ n.operator = op
Divisible(p) ==
  \/ IsOp(p, "and")
  \/ (IsOp(p, "not") /\ p.cls = "HplUnaryOperator"
        /\ LET q == p.operand IN
             \/ (q.cls = "HplBinaryOperator" /\ q.operator \in {"or", "implies"})
             \/ (q.cls = "HplUnaryOperator" /\ q.operator = "not")
             \/ (q.cls = "HplQuantifier" /\ q.quantifier = "exists"))
  \/ (p.cls = "HplQuantifier" /\ p.quantifier = "forall" /\ IsOp(p.condition, "and"))

RECURSIVE ConjVal(_, _, _)
\* Kleene conjunction of the values of a sequence of parts under rho
ConjVal(parts, rho, i) ==
  IF i > Len(parts) THEN B(TRUE) ELSE KAnd(Eval(parts[i], rho, FALSE), ConjVal(parts, rho, i + 1), FALSE)

JudgeParts(in, parts, rhos) == [i \in 1..Len(rhos) |-> Judge(Eval(in, rhos[i], TRUE), ConjVal(parts, rhos[i], 1))]

LiteralFalse(n) == \E x \in Nodes(n) : x.cls = "HplLiteral" /\ x.value = <<"b", FALSE>>
NeverTrue(n, rhos) == \A i \in 1..Len(rhos) : Eval(n, rhos[i], FALSE) # B(TRUE)
InCond(n) == IF n.cls = "HplVacuousTruth" THEN [cls |-> "HplLiteral", dt |-> <<"BOOL">>, token |-> "True", value |-> <<"b", TRUE>>]
             ELSE IF n.cls = "HplContradiction" THEN [cls |-> "HplLiteral", dt |-> <<"BOOL">>, token |-> "False", value |-> <<"b", FALSE>>]
             ELSE IF n.cls = "HplPredicateExpression" THEN n.expression ELSE n

SplitVerdict(e, js) ==
  IF e.out = "ValueError" THEN
       (IF LiteralFalse(InCond(e.in)) /\ NeverTrue(e.in, e.rhos) THEN {} ELSE {"ValueErrorOnlyIfUnsatisfiable"})
  ELSE IF e.out # "ok" THEN {"Raises:" \o e.out}
  ELSE (IF \E i \in 1..Len(e.outs) : ~IsExpr(e.outs[i]) \/ DT(e.outs[i]) # T_BOOL THEN {"PartBoolean"} ELSE {})
       \cup (IF \E i \in 1..Len(e.outs) : IsExpr(e.outs[i]) /\ Divisible(e.outs[i]) THEN {"Indivisible"} ELSE {})
       \cup UNION {{"WT." \o c : c \in WT(e.outs[i])} : i \in 1..Len(e.outs)}
       \cup (IF \E i \in 1..Len(js) : js[i] = "differ" THEN {"Equivalent"} ELSE {})
       \cup (IF \E i \in 1..Len(js) : js[i] = "undef" THEN {"OutputDefined"} ELSE {})

(* ------------------------------------------------------- refactor_reference (C10) *)
IsTrueNode(n) == n.cls = "HplVacuousTruth" \/ (n.cls = "HplLiteral" /\ n.value = <<"b", TRUE>>)

RefactorVerdict(e, js) ==
  IF e.out # "ok" THEN {"Raises:" \o e.out}
  ELSE LET f1 == e.outs[1] f2 == e.outs[2] IN
       (IF ContainsRef(f1, e.alias) THEN {"FirstPartFreeOfAlias"} ELSE {})
       \cup (IF (ExtRefs(f1) \cup ExtRefs(f2)) \subseteq ExtRefs(e.in) THEN {} ELSE {"NoBoundVariableEscapes"})
       \cup (IF ~ContainsRef(e.in, e.alias) /\ ~((e.same1 \/ Val(f1) = Val(e.in)) /\ IsTrueNode(f2)) THEN {"UnchangedWhenAliasAbsent"} ELSE {})
       \cup (IF IsPred(e.in) # IsPred(f1) \/ IsPred(e.in) # IsPred(f2) THEN {"SameKind"} ELSE {})
       \cup {"WT." \o c : c \in WT(f1) \cup WT(f2)}
       \cup (IF TypeOf(e.in) = T_BOOL /\ \E i \in 1..Len(js) : js[i] = "differ" THEN {"Equivalent"} ELSE {})
       \cup (IF TypeOf(e.in) = T_BOOL /\ \E i \in 1..Len(js) : js[i] = "undef" THEN {"OutputDefined"} ELSE {})
       \cup (IF TypeOf(e.in) # T_BOOL /\ ~(IsTrueNode(f1) /\ Val(f2) = Val(e.in)) /\ ~(IsTrueNode(f2) /\ Val(f1) = Val(e.in))
             THEN {"SameType"} ELSE {})

(* --------------------------------------------- negate / join / replacements (C13) *)
NotVal(v) == KNot(v)
JudgeNeg(in, out, rhos) == [i \in 1..Len(rhos) |-> Judge(NotVal(Eval(in, rhos[i], TRUE)), Eval(out, rhos[i], FALSE))]
JudgeJoin(in, in2, out, rhos) ==
  [i \in 1..Len(rhos) |-> Judge(KAnd(Eval(in, rhos[i], TRUE), Eval(in2, rhos[i], TRUE), TRUE), Eval(out, rhos[i], FALSE))]

NegateVerdict(e, js) ==
  IF e.out # "ok" THEN {"Raises:" \o e.out}
  ELSE (IF ~IsPred(e.outs[1]) THEN {"SameKind"} ELSE {})
       \cup {"WT." \o c : c \in WT(e.outs[1])}
       \cup (IF \E i \in 1..Len(js) : js[i] \in {"differ", "undef"} THEN {"DenotesNegation"} ELSE {})

PairClash(a, b) ==
  \E x \in {n \in Nodes(a) : IsRef(n)} : \E y \in {n \in Nodes(b) : IsRef(n)} :
     Strip(x) = Strip(y) /\ DT(x) \cap DT(y) = {}

JoinVerdict(e, js) ==
  IF e.out = "TypeError" /\ PairClash(e.in, e.in2) THEN {}
  ELSE IF e.out # "ok" THEN {"Raises:" \o e.out}
  ELSE (IF ~IsPred(e.outs[1]) THEN {"SameKind"} ELSE {})
       \cup {"WT." \o c : c \in WT(e.outs[1])}
       \cup (IF \E i \in 1..Len(js) : js[i] \in {"differ", "undef"} THEN {"DenotesConjunction"} ELSE {})
       \cup (IF e.in.cls = "HplVacuousTruth" /\ ~(e.same2 \/ Val(e.outs[1]) = Val(e.in2)) THEN {"TruthIsIdentity"} ELSE {})
       \cup (IF e.in2.cls = "HplVacuousTruth" /\ ~(e.same1 \/ Val(e.outs[1]) = Val(e.in)) THEN {"TruthIsIdentity"} ELSE {})
       \cup (IF (e.in.cls = "HplContradiction" \/ e.in2.cls = "HplContradiction") /\ e.outs[1].cls # "HplContradiction"
             THEN {"ContradictionAnnihilates"} ELSE {})

\* two references of incompatible types made to coincide by a substitution (C14's allowance)
CoincidenceClash(in, from, to) ==
  LET refs == {x \in Nodes(in) : IsRef(x)} IN
  \E x \in refs : \E y \in refs :
     Subst(Strip(x), from, to) = Subst(Strip(y), from, to) /\ DT(x) \cap DT(y) = {}

ThisRho(rho, a) == [this |-> <<"msg", [f \in {} |-> 0]>>,
                    vars |-> [y \in (DOMAIN rho.vars) \cup {a} |-> IF y = a THEN rho.this ELSE rho.vars[y]]]
VarRho(rho, a) == [this |-> rho.vars[a], vars |-> rho.vars]

ReplaceVerdict(e) ==
  LET toVar == e.op = "replace_this_with_var"
      from == IF toVar THEN ThisNode ELSE VarNode(e.alias)
      to   == IF toVar THEN VarNode(e.alias) ELSE ThisNode
  IN
  IF e.out = "TypeError" THEN
       (IF IsPred(e.in) /\ CoincidenceClash(e.in, from, to) THEN {} ELSE {"TypeErrorOnlyOnCoincidenceClash"})
  ELSE IF e.out # "ok" THEN {"Raises:" \o e.out}
  ELSE LET o == e.outs[1] IN
       (IF IsPred(e.in) # IsPred(o) THEN {"SameKind"} ELSE {})
       \cup (IF Strip(o) = Subst(Strip(e.in), from, to) THEN {} ELSE {"ExactSubstitution:" \o Diff(Subst(Strip(e.in), from, to), Strip(o))})
       \cup (IF ~IsPred(o) /\ o.cls # "HplThisMessage" /\ o.cls # "HplVarReference" /\ DT(o) # DT(e.in) THEN {"SameType"} ELSE {})
       \cup {"WT." \o c : c \in (WT(o) \ {"SameRefCompatible"})}
       \cup (IF toVar /\ e.alias \notin AllVarNames(e.in)
                /\ \E i \in 1..Len(e.rhos) :
                      Judge(Eval(e.in, e.rhos[i], TRUE), Eval(o, ThisRho(e.rhos[i], e.alias), FALSE)) \in {"differ", "undef"}
             THEN {"MeaningUnderBinding"} ELSE {})
       \cup (IF ~toVar /\ ~ContainsSelf(e.in)
                /\ \E i \in 1..Len(e.rhos) :
                      e.alias \in DOMAIN e.rhos[i].vars
                      /\ Judge(Eval(e.in, e.rhos[i], TRUE), Eval(o, VarRho(e.rhos[i], e.alias), FALSE)) \in {"differ", "undef"}
             THEN {"MeaningUnderBinding"} ELSE {})
       \cup (IF e.roundtrip[1] = "ok" /\ toVar /\ e.alias \notin AllVarNames(e.in) /\ Strip(e.roundtrip[2]) # Strip(e.in)
             THEN {"RoundTrip"} ELSE {})

\* t as A {f}: stored predicate is f with @A rewritten to the message itself
EventVerdict(e) ==
  IF e.out # "ok" THEN
       (IF e.out = "TypeError" /\ IsPred(e.in) /\ CoincidenceClash(e.in, VarNode(e.alias), ThisNode) THEN {} ELSE {"Raises:" \o e.out})
  ELSE LET ev == e.outs[1] IN
       (IF Strip(ev.predicate) = Subst(Strip(e.in), VarNode(e.alias), ThisNode) THEN {} ELSE {"AliasRewrittenToThis"})
       \cup (IF e.alias \in ToSet(e.extrefs) THEN {"AliasNotExternal"} ELSE {})
       \cup (IF ToSet(e.extrefs) = ExtRefs(e.in) \ {e.alias} THEN {} ELSE {"EventExternalRefs"})

CanonicalKindVerdict(e) ==
  IF e.out # "ok" THEN {"Raises:" \o e.out}
  ELSE (IF Len(e.outs) = 0 THEN {"NonEmptyList"} ELSE {})
       \cup (IF \E i \in 1..Len(e.outs) : e.outs[i].cls # "HplProperty" THEN {"SameKind"} ELSE {})

Verdict(e, js) ==
  IF e.op = "simplify" THEN SimplifyVerdict(e, js)
  ELSE IF e.op = "canonical_form" THEN CanonicalKindVerdict(e)
  ELSE IF e.op = "split_and" THEN SplitVerdict(e, js)
  ELSE IF e.op = "refactor_reference" THEN RefactorVerdict(e, js)
  ELSE IF e.op = "negate" THEN NegateVerdict(e, js)
  ELSE IF e.op = "join" THEN JoinVerdict(e, js)
  ELSE IF e.op \in {"replace_this_with_var", "replace_var_with_this"} THEN ReplaceVerdict(e)
  ELSE IF e.op = "event" THEN EventVerdict(e)
  ELSE {"UnknownOp"}

Js(e) ==
  IF e.out # "ok" THEN <<>>
  ELSE IF e.op = "simplify" THEN Judgements(e.in, e.outs[1], e.rhos)
  ELSE IF e.op = "split_and" THEN JudgeParts(e.in, e.outs, e.rhos)
  ELSE IF e.op = "refactor_reference" THEN JudgeParts(e.in, e.outs, e.rhos)
  ELSE IF e.op = "negate" THEN JudgeNeg(e.in, e.outs[1], e.rhos)
  ELSE IF e.op = "join" THEN JudgeJoin(e.in, e.in2, e.outs[1], e.rhos)
  ELSE <<>>

Init == l = 1 /\ judged = 0 /\ skippedU = 0 /\ skippedO = 0 /\ skippedR = 0
Step == /\ l <= NEvents
        /\ LET e == Events[l]
               js == Js(e)
           IN /\ ReportAll(e.id, Verdict(e, js))
              /\ judged' = judged + Count(js, "ok") + Count(js, "differ") + Count(js, "undef")
              /\ skippedU' = skippedU + Count(js, "skipU")
              /\ skippedO' = skippedO + Count(js, "skipO")
              /\ skippedR' = skippedR + Count(js, "skipR")
              /\ (Count(js, "ok") + Count(js, "differ") + Count(js, "undef") = 0 /\ Len(js) > 0
                    => Skipped(e.id, "NoJudgedValuation"))
        /\ l' = l + 1
Finish == /\ l = NEvents + 1
          /\ Stat("judged", judged) /\ Stat("skipU", skippedU) /\ Stat("skipO", skippedO) /\ Stat("skipR", skippedR)
          /\ Done(NEvents)
          /\ l' = l + 1 /\ UNCHANGED <<judged, skippedU, skippedO, skippedR>>
Next == Step \/ Finish
Spec == Init /\ [][Next]_vars
=============================================================================
