--------------------------------- MODULE T_C03 ---------------------------------
(* Trace validation for C03: every AST handed out by a parser entry point or by a    *)
(* rewriting function (event.node, the projected snapshot) must satisfy HplAst!WT.    *)
(* One extra event kind "tables" carries the implementation's declared operator and   *)
(* function signatures, which must be the tables of HplTypes.                          *)
EXTENDS TraceBatch, HplAst
VARIABLES l
vars == <<l>>

S(x) == ToSet(x)

TableVerdict(e) ==
  (IF {e.un[i].token : i \in 1..Len(e.un)} = UnOps
      /\ \A i \in 1..Len(e.un) : e.un[i].token \in UnOps =>
            (S(e.un[i].p) = UnSig(e.un[i].token).p /\ S(e.un[i].r) = UnSig(e.un[i].token).r)
   THEN {} ELSE {"Tables.Unary"})
  \cup
  (IF {e.bin[i].token : i \in 1..Len(e.bin)} = BinOps
      /\ \A i \in 1..Len(e.bin) : e.bin[i].token \in BinOps =>
            LET d == e.bin[i] sg == BinSig(d.token) IN S(d.p1) = sg.p1 /\ S(d.p2) = sg.p2 /\ S(d.r) = sg.r
   THEN {} ELSE {"Tables.Binary"})
  \cup
  (IF {e.fun[i].name : i \in 1..Len(e.fun)} = Funs
      /\ \A i \in 1..Len(e.fun) : e.fun[i].name \in Funs =>
            {[ps |-> [j \in 1..Len(sg.ps) |-> S(sg.ps[j])], var |-> S(sg.var), r |-> S(sg.r)]
                : sg \in S(e.fun[i].sigs)} = FunSig(e.fun[i].name)
   THEN {} ELSE {"Tables.Functions"})

Verdict(e) == IF e.kind = "tables" THEN TableVerdict(e) ELSE WT(e.node)

Init == l = 1
Step == l <= NEvents /\ ReportAll(Events[l].id, Verdict(Events[l])) /\ l' = l + 1
Finish == l = NEvents + 1 /\ Done(NEvents) /\ l' = l + 1
Next == Step \/ Finish
Spec == Init /\ [][Next]_vars
=============================================================================
