--------------------------------- MODULE T_C07 ---------------------------------
(* C07: every parser call ends in an AST or a documented error, and a parser object  *)
(* returns the same result for a text whatever it was given before.                   *)
(* event: [id, pid (parser object), entry, text, out, obs, unknownfun (BOOLEAN)]       *)
(* State: memo, the result first seen for each (entry, text) - by any parser object.   *)
EXTENDS TraceBatch, HplAst
VARIABLES l, memo
vars == <<l, memo>>

Documented == {"ast", "HplSyntaxError", "HplSanityError", "TypeError", "ValueError"}

Key(e) == <<e.entry, e.text>>
Res(e) == [out |-> e.out, val |-> IF e.out = "ast" THEN Val(e.obs) ELSE NoneNode]

Verdict(e) ==
  (IF e.out \in Documented THEN {} ELSE {"Documented:" \o e.out})
  \cup (IF e.out = "ValueError" /\ ~e.unknownfun THEN {"ValueErrorOnlyForUnknownFunction"} ELSE {})
  \cup (IF Key(e) \in DOMAIN memo /\ memo[Key(e)] # Res(e) THEN {"ParserStateless"} ELSE {})

Init == l = 1 /\ memo = [x \in {} |-> 0]
Step == /\ l <= NEvents
        /\ LET e == Events[l] IN
             /\ ReportAll(e.id, Verdict(e))
             /\ memo' = IF Key(e) \in DOMAIN memo THEN memo
                        ELSE [x \in (DOMAIN memo) \cup {Key(e)} |-> IF x = Key(e) THEN Res(e) ELSE memo[x]]
        /\ l' = l + 1
Finish == l = NEvents + 1 /\ Done(NEvents) /\ l' = l + 1 /\ UNCHANGED memo
Next == Step \/ Finish
Spec == Init /\ [][Next]_vars
=============================================================================
