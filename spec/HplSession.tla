-------------------------------- MODULE HplSession --------------------------------
(***************************************************************************)
(* L2: the public API of hpl as a state machine over a heap of immutable    *)
(* AST values (anchors: every public function of hpl.ast.*, hpl.rewrite,    *)
(* hpl.parser).                                                              *)
(*                                                                         *)
(* GENERATING configuration (this module + MC_Sched): the data inside the   *)
(* heap is abstracted away and TLC enumerates CALL SCHEDULES - sequences of *)
(* API calls with an argument selector each - which the harness replays on  *)
(* real objects.  The VALIDATING configuration is T_C16, where the heap      *)
(* holds the real projected snapshots read from the recorded trace.          *)
(***************************************************************************)
EXTENDS Naturals, Sequences, TLC, Json

CONSTANTS MaxCalls,    \* schedule length bound
          Ops,         \* API alphabet
          Sels         \* argument selectors

Queries  == {"str", "external_references", "contains_reference", "contains_self_reference", "iterate",
             "is_fully_typed", "eq_hash", "get_conjuncts", "get_disjuncts", "sanity_check", "aliases_events", "repr"}
Copies   == {"cast_same", "cast_narrow", "but_unchanged", "but_lit_num", "but_lit_str", "but_lit_bool", "but_metadata"}
Rewrites == {"simplify", "split_and", "refactor_reference", "replace_this_with_var", "replace_var_with_this",
             "replace_var_with_literal", "negate", "join_self", "canonical_form", "type_check_references",
             "publish_event"}
\* other texts going through a parser entry point between two calls (the parser is part of the same process state)
Parses   == {"parse_accepted", "parse_rejected_syntax", "parse_rejected_type", "parse_rejected_sanity"}
AllOps == Queries \cup Copies \cup Rewrites \cup Parses
AllSels == {"root", "child1", "child2", "grandchild", "refleaf", "thisleaf", "result"}

VARIABLES sched,   \* the calls made so far: sequence of [op, sel]
          nheap    \* abstract heap: number of handles allocated (root = 1)

vars == <<sched, nheap>>

Init == sched = <<>> /\ nheap = 1

\* every call may allocate results (the abstract machine does not know how many): at most 2
Call(op, sel) ==
  /\ Len(sched) < MaxCalls
  /\ (sel = "result" => Len(sched) > 0)
  /\ sched' = Append(sched, [op |-> op, sel |-> sel])
  /\ nheap' = nheap + (IF op \in Queries \cup Parses THEN 0 ELSE 1)

Next == \E op \in Ops, sel \in Sels : Call(op, sel)
Spec == Init /\ [][Next]_vars

\* design-level invariant of the abstract machine: only non-query calls allocate
NonQueries(q) == IF q = <<>> THEN 0 ELSE Len(SelectSeq(q, LAMBDA c : c.op \notin Queries \cup Parses))
QueriesAllocateNothing == nheap = 1 + NonQueries(sched)

\* emission of every schedule (used with -workers 1): always TRUE
EmitSched == Len(sched) > 0 => PrintT(<<"S", ToJson(sched)>>)
=============================================================================
