--------------------------------- MODULE T_C01 ---------------------------------
(* Trace validation for C01: each event is one call of a parser entry point on a    *)
(* text rendered from a sentence of the grammar machine (kind "accept", with the     *)
(* tree the grammar assigns as `expected`) or on a token mutant outside the          *)
(* permissive bounded language (kind "reject").  Events of one sentence (different   *)
(* layouts, the packaged and the source-built parser) are consecutive and must all   *)
(* give the same outcome.                                                            *)
EXTENDS TraceBatch, HplAst
VARIABLES l, last
vars == <<l, last>>

Obs(e) == IF e.out = "ast" THEN Strip(e.observed) ELSE NoneNode

Verdict(e) ==
  (IF e.kind = "accept" THEN
      IF e.out = "HplSyntaxError" THEN {"MustAccept"}
      ELSE IF e.out = "ast" /\ Obs(e) # e.expected THEN {"TreeAssigned:" \o Diff(e.expected, Obs(e))}
      ELSE {}
   ELSE IF e.kind = "reject" THEN
      IF e.out = "ast" THEN {"MustReject"} ELSE {}
   ELSE {})
  \cup
  (IF last.sid = e.sid /\ (last.out # e.out \/ last.obs # Obs(e)) THEN {"LayoutInvariant"} ELSE {})

Init == l = 1 /\ last = [sid |-> 0, out |-> "", obs |-> NoneNode]
Step == /\ l <= NEvents
        /\ LET e == Events[l] IN
             /\ ReportAll(e.id, Verdict(e))
             /\ last' = [sid |-> e.sid, out |-> e.out, obs |-> Obs(e)]
        /\ l' = l + 1
Finish == l = NEvents + 1 /\ Done(NEvents) /\ l' = l + 1 /\ UNCHANGED last
Next == Step \/ Finish
Spec == Init /\ [][Next]_vars
=============================================================================
