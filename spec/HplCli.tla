----------------------------------- MODULE HplCli -----------------------------------
(* The command-line tool as a state machine (C19; anchor: src/hpl/cli.py):             *)
(*   Start(argv) -> Read -> Parsed(ok | error class) -> [Emit(doc)] -> Exit(code)       *)
EXTENDS Naturals, Sequences
CONSTANTS ErrorClasses
VARIABLES pc, asprop, json, readable, outcome, emitted, diag, code
vars == <<pc, asprop, json, readable, outcome, emitted, diag, code>>

Init == /\ pc = "start" /\ asprop \in BOOLEAN /\ json \in BOOLEAN /\ readable \in BOOLEAN
        /\ outcome = "none" /\ emitted = FALSE /\ diag = FALSE /\ code = 99

Read == /\ pc = "start"
        /\ IF asprop \/ readable THEN pc' = "read" /\ UNCHANGED <<outcome, diag>>
           ELSE pc' = "failed" /\ outcome' = "OSError" /\ diag' = TRUE
        /\ UNCHANGED <<asprop, json, readable, emitted, code>>
Parse == /\ pc = "read"
         /\ \E o \in {"ast"} \cup ErrorClasses :
              /\ outcome' = o
              /\ pc' = IF o = "ast" THEN "parsed" ELSE "failed"
              /\ diag' = (o # "ast")
         /\ UNCHANGED <<asprop, json, readable, emitted, code>>
Emit == /\ pc = "parsed" /\ json /\ ~emitted
        /\ emitted' = TRUE
        /\ UNCHANGED <<pc, asprop, json, readable, outcome, diag, code>>
ExitOk == /\ pc = "parsed" /\ (json => emitted)
          /\ pc' = "exited" /\ code' = 0
          /\ UNCHANGED <<asprop, json, readable, outcome, emitted, diag>>
ExitFail == /\ pc = "failed"
            /\ pc' = "exited" /\ code' = 1
            /\ UNCHANGED <<asprop, json, readable, outcome, emitted, diag>>
Next == Read \/ Parse \/ Emit \/ ExitOk \/ ExitFail
Spec == Init /\ [][Next]_vars

\* the property, as invariants of the design
ExitFaithful == pc = "exited" => ((code = 0) <=> (outcome = "ast"))
FailureIsOne == pc = "exited" /\ outcome # "ast" => (code = 1 /\ diag /\ ~emitted)
JsonWhenAsked == pc = "exited" /\ outcome = "ast" => (emitted <=> json)
=============================================================================
