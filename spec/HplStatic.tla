---------------------------------- MODULE HplStatic ----------------------------------
(***************************************************************************)
(* Static typing of (stripped) expression trees from the signature tables   *)
(* of HplTypes alone: the definite type of a term, the type each child slot *)
(* demands, and DefiniteClash - the independent re-derivation used by C05   *)
(* (a generated input that is not a definite clash is a generator bug, not  *)
(* a violation).                                                             *)
(***************************************************************************)
EXTENDS HplAst

\* what a term can be, from its syntactic kind and the declared result types only
Static(n) ==
  CASE n.cls = "HplLiteral"        -> LiteralType(n)
    [] n.cls = "HplThisMessage"    -> T_MESSAGE
    [] n.cls = "HplVarReference"   -> T_ITEM
    [] n.cls = "HplSet"            -> T_SET
    [] n.cls = "HplRange"          -> T_RANGE
    [] n.cls = "HplQuantifier"     -> T_BOOL
    [] n.cls = "HplUnaryOperator"  -> UnSig(n.operator).r
    [] n.cls = "HplBinaryOperator" -> BinSig(n.operator).r
    [] n.cls = "HplFunctionCall"   -> (IF n.function \in Funs THEN FunResult(n.function) ELSE T_ANY)
    [] OTHER                       -> T_ITEM \cup T_ARRAY

\* type demanded of each child, in the order of Kids
Demands(n) ==
  CASE n.cls = "HplSet"            -> [i \in 1..Len(n.values) |-> T_PRIMITIVE]
    [] n.cls = "HplRange"          -> <<T_NUMBER, T_NUMBER>>
    [] n.cls = "HplQuantifier"     -> <<T_COMPOUND, T_BOOL>>
    [] n.cls = "HplUnaryOperator"  -> <<UnSig(n.operator).p>>
    [] n.cls = "HplBinaryOperator" ->
         (IF n.operator \in EqOps
          THEN <<T_PRIMITIVE \cap Static(n.operand2), T_PRIMITIVE \cap Static(n.operand1)>>
          ELSE <<BinSig(n.operator).p1, BinSig(n.operator).p2>>)
    [] n.cls = "HplFunctionCall"   ->
         (IF n.function \in Funs
          THEN [i \in 1..Len(n.arguments) |->
                  UNION {IF i <= Len(s.ps) THEN s.ps[i] ELSE s.var
                         : s \in {x \in FunSig(n.function) : Len(x.ps) = Len(n.arguments) \/ (Len(x.ps) < Len(n.arguments) /\ x.var # {})}}]
          ELSE [i \in 1..Len(n.arguments) |-> T_ANY])
    [] n.cls = "HplFieldAccess"    -> <<T_MESSAGE>>
    [] n.cls = "HplArrayAccess"    -> <<T_ARRAY, T_NUMBER>>
    [] n.cls = "HplPredicateExpression" -> <<T_BOOL>>
    [] OTHER                       -> <<>>

\* a child whose definite type is disjoint from what its slot demands
SlotClash(n) == \E i \in 1..Len(Kids(n)) : IsExpr(Kids(n)[i]) /\ Static(Kids(n)[i]) \cap Demands(n)[i] = {}

\* every occurrence of a reference with the type its context demands: set of <<Strip(ref), binder, type>>
\* (binder: the stripped quantifier binding the root variable, <<>> when free)
RECURSIVE SBaseOf(_)
SBaseOf(x) == IF x.cls = "HplFieldAccess" THEN SBaseOf(x.message) ELSE IF x.cls = "HplArrayAccess" THEN SBaseOf(x.array) ELSE x
RECURSIVE RefDemandsS(_, _, _)
RefDemandsS(n, d, scope) ==
  (IF IsRef(n)
   THEN LET b == SBaseOf(n) IN
        {<<Strip(n), IF b.cls = "HplVarReference" /\ b.name \in DOMAIN scope THEN <<scope[b.name]>> ELSE <<>>, d \cap Static(n)>>}
   ELSE {})
  \cup (IF n.cls = "HplQuantifier"
        THEN RefDemandsS(n.domain, T_COMPOUND, scope)
             \cup RefDemandsS(n.condition, T_BOOL, [y \in (DOMAIN scope) \cup {n.variable} |-> IF y = n.variable THEN Strip(n) ELSE scope[y]])
        ELSE UNION {RefDemandsS(Kids(n)[i], Demands(n)[i], scope) : i \in 1..Len(Kids(n))})
RefDemands(n, d) == {<<r[1], r[3]>> : r \in RefDemandsS(n, d, [y \in {} |-> 0])}

RefClash(n, d) ==
  LET rd == RefDemandsS(n, d, [y \in {} |-> 0]) IN \E a \in rd : \E b \in rd : a[1] = b[1] /\ a[2] = b[2] /\ a[3] \cap b[3] = {}

\* the bound variable of a quantifier over a LITERAL set or range, used where a type disjoint from the elements is demanded
LiteralElemType(dom) ==
  IF dom.cls = "HplRange" THEN T_NUMBER
  ELSE IF dom.cls = "HplSet" THEN UNION {Static(dom.values[i]) : i \in 1..Len(dom.values)}
  ELSE T_ANY
BoundClash(n) ==
  \E q \in {x \in Nodes(n) : x.cls = "HplQuantifier"} :
     \E rd \in RefDemands(q.condition, T_BOOL) :
        rd[1] = [cls |-> "HplVarReference", name |-> q.variable] /\ rd[2] \cap LiteralElemType(q.domain) = {}

\* n: stripped expression expected to be a predicate's condition
DefiniteClash(n) ==
  \/ BoundClash(n)
  \/ \E x \in Nodes(n) : IsExpr(x) /\ SlotClash(x)
  \/ Static(n) \cap T_BOOL = {}
  \/ RefClash(n, T_BOOL)
=============================================================================
