--------------------------------- MODULE T_C11 ---------------------------------
(* C11: the recorded output of canonical_form (projected WITH types and metadata, *)
(* without object ids) must be exactly HplProps!CanonicalForm of the recorded     *)
(* input, element by element; plus identity facts.                                 *)
EXTENDS TraceBatch, HplProps
VARIABLES l
vars == <<l>>

Verdict(e) ==
  IF e.out # "ok" THEN {"Raises:" \o e.out}
  ELSE LET exp == CanonicalForm(e.in) IN
       (IF Len(e.outs) # Len(exp) THEN {"OnePerPair"}
        ELSE LET ds == {i \in 1..Len(exp) : e.outs[i] # exp[i]} IN
             IF ds = {} THEN {}
             ELSE LET i == CHOOSE j \in ds : \A m \in ds : j <= m IN
                  IF Strip(e.outs[i]) # Strip(exp[i])
                  THEN (IF {Strip(e.outs[j]) : j \in 1..Len(exp)} = {Strip(exp[j]) : j \in 1..Len(exp)}
                        THEN {"OrderActivatorMajor"} ELSE {"ExactDecomposition:" \o Diff(Strip(exp[i]), Strip(e.outs[i]))})
                  ELSE {"OnlyTwoPositionsDiffer(types/times/metadata)"})
       \cup (IF ~NeedsSplit(e.in) /\ ~e.same THEN {"SameObjectWhenNothingToSplit"} ELSE {})
       \cup (IF NeedsSplit(e.in) /\ e.shared_meta THEN {"MetadataCopiedNotShared"} ELSE {})
       \cup (IF \E i \in 1..Len(e.idem) : ~e.idem[i] THEN {"Idempotent"} ELSE {})

Init == l = 1
Step == l <= NEvents /\ ReportAll(Events[l].id, Verdict(Events[l])) /\ l' = l + 1
Finish == l = NEvents + 1 /\ Done(NEvents) /\ l' = l + 1
Next == Step \/ Finish
Spec == Init /\ [][Next]_vars
=============================================================================
