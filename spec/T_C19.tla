--------------------------------- MODULE T_C19 ---------------------------------
(* Trace validation of runs of the hpl command against HplCli: a recorded run is     *)
(* accepted iff it is the observable projection of a behaviour of HplCli, where the   *)
(* unobserved `outcome` is fixed by a direct call of the parser on the same input.    *)
(* event: [id, asprop, json, readable, direct, code, stdout ("empty" | "one_json" |   *)
(*         "other"), strict (BOOLEAN), mirror (BOOLEAN), diag (BOOLEAN)]               *)
EXTENDS TraceBatch
VARIABLES l
vars == <<l>>

Verdict(e) ==
  LET ok == e.direct = "ast" /\ (e.asprop \/ e.readable) IN
  (IF (e.code = 0) = ok THEN {} ELSE {"ExitFaithful"})
  \cup (IF ~ok /\ e.code # 1 THEN {"FailureIsOne"} ELSE {})
  \cup (IF ~ok /\ e.stdout = "one_json" THEN {"NoJsonOnFailure"} ELSE {})
  \cup (IF ~ok /\ ~e.diag THEN {"DiagnosticOnFailure"} ELSE {})
  \cup (IF ok /\ e.json /\ e.stdout # "one_json" THEN {"SingleJsonDocument"} ELSE {})
  \cup (IF ok /\ e.json /\ e.stdout = "one_json" /\ ~e.strict THEN {"StrictJson"} ELSE {})
  \cup (IF ok /\ e.json /\ e.stdout = "one_json" /\ ~e.mirror THEN {"MirrorsAst:" \o e.mirror_path} ELSE {})
  \cup (IF ok /\ ~e.json /\ e.stdout = "one_json" THEN {"NoJsonUnlessAsked"} ELSE {})

Init == l = 1
Step == l <= NEvents /\ ReportAll(Events[l].id, Verdict(Events[l])) /\ l' = l + 1
Finish == l = NEvents + 1 /\ Done(NEvents) /\ l' = l + 1
Next == Step \/ Finish
Spec == Init /\ [][Next]_vars
=============================================================================
