--------------------------------- MODULE T_Extra ---------------------------------
(* Behaviour of the API beyond the listed properties (spec growth; not registered in   *)
(* MANIFEST.json): conjunct/disjunct flattening, pattern/scope classification, the      *)
(* order of HplProperty.events(), constructor validation of scopes and patterns,         *)
(* inverse operators, DataType naming.                                                    *)
EXTENDS TraceBatch, HplEval, HplProps
VARIABLES l
vars == <<l>>

RECURSIVE FoldVal(_, _, _, _)
FoldVal(parts, rho, i, conj) ==
  IF i > Len(parts) THEN B(conj)
  ELSE IF conj THEN KAnd(Eval(parts[i], rho, FALSE), FoldVal(parts, rho, i + 1, conj), FALSE)
  ELSE KOr(Eval(parts[i], rho, FALSE), FoldVal(parts, rho, i + 1, conj), FALSE)

Safety == {"ABSENCE", "REQUIREMENT", "PREVENTION"}

Verdict(e) ==
  IF e.kind = "flatten" THEN
       \* get_conjuncts / get_disjuncts: no part is itself an and / or; the fold of the parts is equivalent to the input
       (IF \E i \in 1..Len(e.parts) : e.parts[i].cls = "HplBinaryOperator" /\ e.parts[i].operator = e.op THEN {"Flattened"} ELSE {})
       \cup (IF \E k \in 1..Len(e.rhos) :
                Judge(Eval(e.in, e.rhos[k], TRUE), FoldVal(e.parts, e.rhos[k], 1, e.op = "and")) \in {"differ", "undef"}
             THEN {"FoldEquivalent"} ELSE {})
  ELSE IF e.kind = "classify" THEN
       (IF e.is_safety = (e.prop.pattern.pattern_type \in Safety) THEN {} ELSE {"SafetyClassification"})
       \cup (IF e.is_liveness = (e.prop.pattern.pattern_type \notin Safety) THEN {} ELSE {"LivenessClassification"})
       \cup (IF e.events = [i \in 1..Len(e.events) |->
                 (Opt(e.prop.scope.activator) \o <<e.prop.pattern.behaviour>> \o Opt(e.prop.pattern.trigger) \o Opt(e.prop.scope.terminator))[i].oid]
                /\ Len(e.events) = Len(Opt(e.prop.scope.activator) \o <<e.prop.pattern.behaviour>> \o Opt(e.prop.pattern.trigger) \o Opt(e.prop.scope.terminator))
             THEN {} ELSE {"EventsOrder"})
       \cup (IF e.has_max_time = (e.prop.pattern.max_time[1] = "n") THEN {} ELSE {"HasMaxTime"})
  ELSE IF e.kind = "ctor" THEN
       (IF e.raised = e.mustraise THEN {} ELSE {"ConstructorValidation:" \o e.what})
  ELSE IF e.kind = "inverse" THEN
       (IF e.inv = (IF e.op = "<" THEN ">" ELSE IF e.op = ">" THEN "<" ELSE IF e.op = "<=" THEN ">="
                    ELSE IF e.op = ">=" THEN "<=" ELSE e.op) THEN {} ELSE {"InverseOperator:" \o e.op})
  ELSE {"UnknownKind"}

Init == l = 1
Step == l <= NEvents /\ ReportAll(Events[l].id, Verdict(Events[l])) /\ l' = l + 1
Finish == l = NEvents + 1 /\ Done(NEvents) /\ l' = l + 1
Next == Step \/ Finish
Spec == Init /\ [][Next]_vars
=============================================================================
