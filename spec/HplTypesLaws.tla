------------------------------ MODULE HplTypesLaws ------------------------------
(***************************************************************************)
(* The lattice laws of C20, proved for type sets over ANY set of base types  *)
(* (TLAPS), in addition to the exhaustive TLC check over the seven base      *)
(* types (MC_Types).  Cast/CastOK/CanBe/Union are copied from HplTypes.      *)
(***************************************************************************)
CastOK(s, t) == s \cap t # {}
Cast(s, t)   == s \cap t
CanBe(s, t)  == s \cap t # {}
Union(S)     == UNION S

THEOREM CastIdempotent == \A s : Cast(s, s) = s
  BY DEF Cast
THEOREM CastCommutative == \A s, t : Cast(s, t) = Cast(t, s) /\ (CastOK(s, t) <=> CastOK(t, s))
  BY DEF Cast, CastOK
THEOREM CastAssociative == \A s, t, u : Cast(Cast(s, t), u) = Cast(s, Cast(t, u))
  BY DEF Cast
THEOREM CastMonotone == \A s, t, u : s \subseteq t => Cast(s, u) \subseteq Cast(t, u)
  BY DEF Cast
THEOREM CastNarrows == \A s, t : Cast(s, t) \subseteq s /\ Cast(s, t) \subseteq t
  BY DEF Cast
THEOREM CastGreatestLowerBound == \A s, t, u : (u \subseteq s /\ u \subseteq t) => u \subseteq Cast(s, t)
  BY DEF Cast
THEOREM CanBeIsCastOK == \A s, t : CanBe(s, t) <=> CastOK(s, t)
  BY DEF CanBe, CastOK
THEOREM UnionUpperBound == \A S : \A s \in S : s \subseteq Union(S)
  BY DEF Union
THEOREM UnionLeast == \A S, u : (\A s \in S : s \subseteq u) => Union(S) \subseteq u
  BY DEF Union
THEOREM CastOKMonotone == \A s, t, u : (s \subseteq t /\ CastOK(s, u)) => CastOK(t, u)
  BY DEF CastOK
=============================================================================
