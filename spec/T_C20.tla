--------------------------------- MODULE T_C20 ---------------------------------
(* Trace validation of hpl.types.DataType against HplTypes (C20).                   *)
(* One event = one call on the real DataType flag:                                  *)
(*   cast(s,t) -> ok r | TypeError ; can_be(s,t) -> bool ; union(args) -> r ;       *)
(*   can_be_<base>(s) -> bool ; expr_cast: node.cast(t) on an AST node with type s   *)
EXTENDS TraceBatch, HplTypes
VARIABLES l
vars == <<l>>

S(x) == ToSet(x)

Verdict(e) ==
  IF e.op \in {"cast", "expr_cast"} THEN      \* expr_cast: HplExpression.cast on a node whose stored type set is s
       LET s == S(e.s) t == S(e.t) IN
       IF CastOK(s, t)
         THEN (IF e.out # "ok" THEN {"Cast.MustSucceed"} ELSE
               IF S(e.r) # Cast(s, t) THEN {"Cast.IsIntersection"} ELSE {})
         ELSE (IF e.out = "ok" THEN {"Cast.MustRaise"} ELSE
               IF e.out # "TypeError" THEN {"Cast.RaisesTypeError"} ELSE {})
  ELSE IF e.op = "can_be" THEN
       (IF e.r # CanBe(S(e.s), S(e.t)) THEN {"CanBe.IsNonEmptyIntersection"} ELSE {})
  ELSE IF e.op = "can_be_base" THEN
       (IF e.r # CanBe(S(e.s), {e.base}) THEN {"CanBeBase"} ELSE {})
  ELSE IF e.op = "union" THEN
       (IF S(e.r) # Union({S(e.args[i]) : i \in 1..Len(e.args)}) THEN {"Union.IsLUB"} ELSE {})
  ELSE {"UnknownOp"}

CastPairs == {<<S(Events[i].s), S(Events[i].t)>> : i \in {j \in 1..NEvents : Events[j].op = "cast"}}
Init == l = 1
Step == /\ l <= NEvents
        /\ LET e == Events[l] IN
             ReportAll(e.id, Verdict(e))
        /\ l' = l + 1
Finish == /\ l = NEvents + 1
          /\ Done(NEvents)
          /\ (IOEnv.COMPLETE = "1" =>
                IF CastPairs = TypeSet \X TypeSet THEN Stat("complete_pairs", Cardinality(CastPairs))
                ELSE Bad(0, "Exhaustive.AllPairsCovered"))
          /\ l' = l + 1
Next == Step \/ Finish
Spec == Init /\ [][Next]_vars
=============================================================================
