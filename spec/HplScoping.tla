-------------------------------- MODULE HplScoping --------------------------------
(***************************************************************************)
(* The binding-order rule of HPL properties (C02; anchors: sanity checks   *)
(* of src/hpl/ast/properties.py, events.py, expressions.py).               *)
(* Operates on (stripped or projected) property trees of HplAst whose       *)
(* variable names carry no "@".                                             *)
(***************************************************************************)
EXTENDS HplAst

AliasesOf(e) == SeqToSet(Aliases(e))
Present(e) == ~IsNone(e)

\* events in binding order: activator, then trigger before behaviour
\* (behaviour before trigger for `requires`)
Chain(p) ==
  Opt(p.scope.activator) \o
  (IF p.pattern.pattern_type \in {"ABSENCE", "EXISTENCE"} THEN <<p.pattern.behaviour>>
   ELSE IF p.pattern.pattern_type = "REQUIREMENT" THEN <<p.pattern.behaviour, p.pattern.trigger>>
   ELSE <<p.pattern.trigger, p.pattern.behaviour>>)

Before(ch, i) == UNION {AliasesOf(ch[j]) : j \in 1..(i - 1)}
ActAliases(p) == IF Present(p.scope.activator) THEN AliasesOf(p.scope.activator) ELSE {}

\* (i) every alias reference is bound by an event that precedes it
RefsBound(p) ==
  LET ch == Chain(p) IN
  /\ \A i \in 1..Len(ch) : ExtRefs(ch[i]) \subseteq Before(ch, i)
  /\ (Present(p.scope.terminator) => ExtRefs(p.scope.terminator) \subseteq ActAliases(p))

\* (ii) no alias is bound a second time along the chain
NoRebinding(p) ==
  LET ch == Chain(p) IN
  /\ \A i \in 1..Len(ch) : AliasesOf(ch[i]) \cap Before(ch, i) = {}
  /\ (Present(p.scope.terminator) => AliasesOf(p.scope.terminator) \cap ActAliases(p) = {})

\* (iii) no channel twice inside one event disjunction
ChannelsDistinct(e) ==
  LET ss == SimpleEvents(e) IN \A i \in 1..Len(ss) : \A j \in 1..Len(ss) : i # j => ss[i].name # ss[j].name
NoDuplicateChannel(p) ==
  \A e \in {x \in Nodes(p) : x.cls = "HplEventDisjunction"} : ChannelsDistinct(e)

\* (iv) quantifier hygiene
QuantHygiene(q) ==
  /\ \E x \in Nodes(q.condition) : x.cls = "HplVarReference" /\ x.name = q.variable
  /\ ~\E x \in Nodes(q.domain) : x.cls = "HplVarReference" /\ x.name = q.variable
  /\ ~\E x \in Nodes(q.condition) : x.cls = "HplQuantifier" /\ x.variable = q.variable
QuantifiersOK(p) == \A q \in {x \in Nodes(p) : x.cls = "HplQuantifier"} : QuantHygiene(q)

Accept(p) == RefsBound(p) /\ NoRebinding(p) /\ NoDuplicateChannel(p) /\ QuantifiersOK(p)

\* deliberately unspecified shapes (never judged): the same alias on two alternatives of one
\* disjunction; an alias of the terminator equal to an alias bound by the pattern
SameDisjAlias(e) ==
  LET as == Aliases(e) IN \E i \in 1..Len(as) : \E j \in 1..Len(as) : i # j /\ as[i] = as[j]
Unspecified(p) ==
  \/ \E e \in {x \in Nodes(p) : x.cls = "HplEventDisjunction"} : SameDisjAlias(e)
  \/ (Present(p.scope.terminator)
        /\ AliasesOf(p.scope.terminator) \cap (AliasesOf(p.pattern.behaviour)
              \cup (IF Present(p.pattern.trigger) THEN AliasesOf(p.pattern.trigger) ELSE {})) # {})
=============================================================================
