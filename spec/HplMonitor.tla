--------------------------------- MODULE HplMonitor ---------------------------------
(***************************************************************************)
(* L3: the message bus and the meaning of scopes and patterns on a finite   *)
(* timed trace (anchor: docs/lang.md; DESIGN section 10.12 lists the         *)
(* modelling decisions).                                                     *)
(*                                                                         *)
(* State: `tr`, the trace published so far - a sequence of messages          *)
(*        [t |-> time, ch |-> channel, v |-> payload number]                *)
(* Transition: publish one message (time does not decrease).                *)
(* Sat(p, tr) is declarative (first-order over positions of the trace).     *)
(* Properties are records in the projected shape of HplAst; predicates are   *)
(* evaluated with HplEval on the message <<"msg", [v |-> payload]>>.          *)
(***************************************************************************)
EXTENDS HplEval

CONSTANTS Topics,      \* set of channel names
          Payloads,    \* set of integers
          Deltas,      \* set of naturals: time increments
          MaxLen,      \* bound on the trace length
          Reactivate   \* BOOLEAN: does a later activator re-open an after-until scope

VARIABLE tr

MsgVal(m) == <<"msg", [v |-> <<"n", m.v, 1>>]>>
EmptyEnv == [a \in {} |-> 0]
Rho(m, env) == [this |-> MsgVal(m), vars |-> env]
BindAlias(env, a, m) == [y \in (DOMAIN env) \cup {a} |-> IF y = a THEN MsgVal(m) ELSE env[y]]

\* the environments in which event e matches message m under env (at most one: channels of the
\* alternatives of a disjunction are distinct); a predicate over an unbound alias does not match
RECURSIVE MatchEnvs(_, _, _)
MatchEnvs(e, m, env) ==
  IF e.cls = "HplEventDisjunction" THEN MatchEnvs(e.event1, m, env) \cup MatchEnvs(e.event2, m, env)
  ELSE IF e.name = m.ch /\ Eval(e.predicate, Rho(m, env), FALSE) = B(TRUE)
       THEN {IF e.alias[1] = "some" THEN BindAlias(env, e.alias[2], m) ELSE env}
       ELSE {}
Matches(e, m, env) == MatchEnvs(e, m, env) # {}
EnvOf(e, m, env) == CHOOSE x \in MatchEnvs(e, m, env) : TRUE

\* dt <= T for T = <<"inf", 1>> or a rational <<"n", num, den>> of seconds
WithinT(dt, T) == T[1] = "inf" \/ (T[1] = "n" /\ dt * T[3] <= T[2])

(***************************************************************************)
(* Scope intervals: records [s, e, env, t0]; the pattern observes the        *)
(* positions strictly between s and e.                                       *)
(***************************************************************************)
First(S) == CHOOSE k \in S : \A j \in S : k <= j

EndOf(q, t, from, env) ==
  LET n == Len(t)
      hits == {k \in (from + 1)..n : Matches(q, t[k], env)}
  IN IF hits = {} THEN n + 1 ELSE First(hits)

RECURSIVE AfterUntilFrom(_, _, _, _)
AfterUntilFrom(p, q, t, from) ==
  LET n == Len(t)
      starts == {k \in (from + 1)..n : Matches(p, t[k], EmptyEnv)}
  IN IF starts = {} THEN {}
     ELSE LET s == First(starts)
              env == EnvOf(p, t[s], EmptyEnv)
              e == EndOf(q, t, s, env)
          IN {[s |-> s, e |-> e, env |-> env, t0 |-> t[s].t]}
             \cup (IF Reactivate /\ e <= n THEN AfterUntilFrom(p, q, t, e) ELSE {})

Intervals(sc, t) ==
  LET n == Len(t) IN
  IF sc.scope_type = "GLOBAL" THEN {[s |-> 0, e |-> n + 1, env |-> EmptyEnv, t0 |-> 0]}
  ELSE IF sc.scope_type = "UNTIL" THEN {[s |-> 0, e |-> EndOf(sc.terminator, t, 0, EmptyEnv), env |-> EmptyEnv, t0 |-> 0]}
  ELSE IF sc.scope_type = "AFTER" THEN
       LET starts == {k \in 1..n : Matches(sc.activator, t[k], EmptyEnv)} IN
       IF starts = {} THEN {}
       ELSE LET s == First(starts) IN {[s |-> s, e |-> n + 1, env |-> EnvOf(sc.activator, t[s], EmptyEnv), t0 |-> t[s].t]}
  ELSE AfterUntilFrom(sc.activator, sc.terminator, t, 0)

(***************************************************************************)
(* Patterns inside one interval (strong finite-trace reading)               *)
(***************************************************************************)
Inside(I) == (I.s + 1)..(I.e - 1)

SatPattern(pt, t, I) ==
  LET T == pt.max_time
      b == pt.behaviour
      a == pt.trigger
      pos == Inside(I)
  IN
  CASE pt.pattern_type = "ABSENCE" ->
         ~\E k \in pos : Matches(b, t[k], I.env) /\ WithinT(t[k].t - I.t0, T)
    [] pt.pattern_type = "EXISTENCE" ->
         \E k \in pos : Matches(b, t[k], I.env) /\ WithinT(t[k].t - I.t0, T)
    [] pt.pattern_type = "RESPONSE" ->
         \A k \in pos : Matches(a, t[k], I.env) =>
            LET env2 == EnvOf(a, t[k], I.env) IN
            \E j \in pos : j > k /\ Matches(b, t[j], env2) /\ WithinT(t[j].t - t[k].t, T)
    [] pt.pattern_type = "PREVENTION" ->
         \A k \in pos : Matches(a, t[k], I.env) =>
            LET env2 == EnvOf(a, t[k], I.env) IN
            ~\E j \in pos : j > k /\ Matches(b, t[j], env2) /\ WithinT(t[j].t - t[k].t, T)
    [] pt.pattern_type = "REQUIREMENT" ->
         \A k \in pos : Matches(b, t[k], I.env) =>
            LET env2 == EnvOf(b, t[k], I.env) IN
            \E j \in pos : j < k /\ Matches(a, t[j], env2) /\ WithinT(t[k].t - t[j].t, T)
    [] OTHER -> FALSE

Sat(p, t) == \A I \in Intervals(p.scope, t) : SatPattern(p.pattern, t, I)
SatAll(ps, t) == \A i \in 1..Len(ps) : Sat(ps[i], t)

(***************************************************************************)
(* Binding: does the monitor, following exactly the evaluation order of Sat, *)
(* ever evaluate the predicate of an event in an environment that lacks an   *)
(* alias the predicate refers to?  (Sat treats such a predicate as "does not *)
(* match"; the binding-order rule of HplScoping is there so that this never  *)
(* happens.)                                                                 *)
(***************************************************************************)
RECURSIVE Misses(_, _, _)
\* event e is tried on message m under env: some alternative on m's channel refers to an alias env does not bind
Misses(e, m, env) ==
  IF e.cls = "HplEventDisjunction" THEN Misses(e.event1, m, env) \/ Misses(e.event2, m, env)
  ELSE e.name = m.ch /\ (ExtRefs(e.predicate) \ (DOMAIN env)) # {}

MissesInScope(sc, t) ==
  LET n == Len(t) IN
  CASE sc.scope_type = "GLOBAL" -> FALSE
    [] sc.scope_type = "UNTIL" -> \E k \in 1..n : Misses(sc.terminator, t[k], EmptyEnv)
    [] sc.scope_type = "AFTER" -> \E k \in 1..n : Misses(sc.activator, t[k], EmptyEnv)
    [] OTHER -> \/ \E k \in 1..n : Misses(sc.activator, t[k], EmptyEnv)
                \/ \E I \in AfterUntilFrom(sc.activator, sc.terminator, t, 0) :
                      \E k \in (I.s + 1)..n : Misses(sc.terminator, t[k], I.env)

MissesInPattern(pt, t, I) ==
  LET b == pt.behaviour
      a == pt.trigger
      pos == Inside(I)
  IN
  CASE pt.pattern_type \in {"ABSENCE", "EXISTENCE"} -> \E k \in pos : Misses(b, t[k], I.env)
    [] pt.pattern_type \in {"RESPONSE", "PREVENTION"} ->
         \E k \in pos : \/ Misses(a, t[k], I.env)
                         \/ (Matches(a, t[k], I.env) /\ \E j \in pos : j > k /\ Misses(b, t[j], EnvOf(a, t[k], I.env)))
    [] pt.pattern_type = "REQUIREMENT" ->
         \E k \in pos : \/ Misses(b, t[k], I.env)
                         \/ (Matches(b, t[k], I.env) /\ \E j \in pos : j < k /\ Misses(a, t[j], EnvOf(b, t[k], I.env)))
    [] OTHER -> FALSE

UnboundEval(p, t) == MissesInScope(p.scope, t) \/ \E I \in Intervals(p.scope, t) : MissesInPattern(p.pattern, t, I)

(***************************************************************************)
(* The bus                                                                  *)
(***************************************************************************)
Now == IF tr = <<>> THEN 0 ELSE tr[Len(tr)].t
Init == tr = <<>>
Publish(c, v, d) == tr' = Append(tr, [t |-> Now + d, ch |-> c, v |-> v])
Next == Len(tr) < MaxLen /\ \E c \in Topics, v \in Payloads, d \in Deltas : Publish(c, v, d)
Spec == Init /\ [][Next]_tr
=============================================================================
