--------------------------------- MODULE HplLex ---------------------------------
(***************************************************************************)
(* L1, character level: the lexer machine (anchors: src/hpl/grammars/      *)
(* tokens.lark, the terminals imported from Lark's common.lark, and the    *)
(* way Lark's lexer is configured in src/hpl/parser.py).                    *)
(*                                                                         *)
(* State: the input text (a sequence of one-character strings), the        *)
(* position reached, the tokens emitted so far, and whether every step so  *)
(* far took the LONGEST token that starts at the position.                  *)
(* Actions:                                                                *)
(*   SkipWS        white space between tokens is dropped                   *)
(*   Munch         emit the longest token starting here (the rule the      *)
(*                 property states: "names are lexed by longest match")    *)
(*   MunchShortOp  DELIBERATE DEVIATION, named: emit a one-character       *)
(*                 operator although a two-character operator starts here. *)
(*                 Lark's contextual lexer only tries the terminals the    *)
(*                 parser can accept in its current state, so `a[1]!=2`    *)
(*                 is read  ] !=  and not  ]! = .  Behaviours using this   *)
(*                 action are never REQUIRED of the code; they only limit  *)
(*                 what may be called "must reject".                        *)
(* A state with pos <= Len(text) and no enabled action is a lexical error.  *)
(* Terminal states with pos = Len(text) + 1 are complete tokenisations.    *)
(*                                                                         *)
(* Token classes: NAME (CNAME), KW (a word that is exactly a keyword),      *)
(* BOOL, CONST, NUM (common.NUMBER), VAR ("@" CNAME), STR (ESCAPED_STRING), *)
(* OP.  The classification of a word looks at the MAXIMAL word only: a      *)
(* name that merely begins with a keyword (nothing, E1, INFO, Trueish) is   *)
(* one NAME.                                                                *)
(***************************************************************************)
EXTENDS Naturals, Sequences, FiniteSets, TLC, Json

CONSTANTS Sigma,      \* set of one-character strings the inputs are drawn from
          MaxLen,     \* inputs: every sequence over Sigma of length 0..MaxLen  (when Pieces = {})
          Pieces,     \* alternatively: set of strings-as-character-sequences; inputs = concatenations of
          MaxPieces,  \*   at most MaxPieces pieces
          Given,      \* alternatively (when non-empty): an explicit set of input texts (character sequences)
          Prefix,     \* a character sequence put in front of every enumerated input (e.g. "globally:")
          First,      \* only the enumerated inputs whose first character is in this set (and the empty one if "" is in it):
                      \*   lets the harness split one enumeration over several TLC processes
          Keywords, Booleans, Constants,  \* sets of strings (predicate level)
          PropMode,     \* BOOLEAN: the text is a property (TRUE) or a predicate / expression (FALSE)
          PropKeywords  \* set of strings: the keywords of the property level

VARIABLES text, pos, toks, greedy,
          depth       \* brace nesting: in a property, everything inside { } is lexed at the predicate level
vars == <<text, pos, toks, greedy, depth>>

Lower  == {"a","b","c","d","e","f","g","h","i","j","k","l","m","n","o","p","q","r","s","t","u","v","w","x","y","z"}
Upper  == {"A","B","C","D","E","F","G","H","I","J","K","L","M","N","O","P","Q","R","S","T","U","V","W","X","Y","Z"}
Digits == {"0","1","2","3","4","5","6","7","8","9"}
WS     == {" ", "\t", "\n", "\r"}
WordStart == Lower \cup Upper \cup {"_"}
WordChars == WordStart \cup Digits

Op1 == {"=", "<", ">", "+", "-", "*", "/", "(", ")", "{", "}", "[", "]", ",", ".", ":"}
Op2 == {<<"!", "=">>, <<"<", "=">>, <<">", "=">>, <<"*", "*">>, <<"!", "[">>, <<"]", "!">>}

\* the largest j >= i - 1 such that s[i..j] lies inside set S
RECURSIVE RunEnd(_, _, _)
RunEnd(s, i, S) == IF i <= Len(s) /\ s[i] \in S THEN RunEnd(s, i + 1, S) ELSE i - 1

(***************************************************************************)
(* Recognisers: the length of the longest prefix of s that is a token of    *)
(* the class, 0 if none.                                                    *)
(***************************************************************************)
WordEnd(s) == IF s # <<>> /\ s[1] \in WordStart THEN RunEnd(s, 2, WordChars) ELSE 0

VarEnd(s) == IF Len(s) >= 2 /\ s[1] = "@" /\ s[2] \in WordStart THEN RunEnd(s, 3, WordChars) ELSE 0

\* common.NUMBER = FLOAT | INT ; FLOAT = INT _EXP | DECIMAL _EXP? ; DECIMAL = INT "." INT? | "." INT ;
\* _EXP = ("e"|"E") SIGNED_INT
NumEnd(s) ==
  LET d1 == RunEnd(s, 1, Digits)
      mant == IF d1 >= 1
              THEN (IF d1 + 1 <= Len(s) /\ s[d1 + 1] = "." THEN RunEnd(s, d1 + 2, Digits) ELSE d1)
              ELSE (IF Len(s) >= 2 /\ s[1] = "." /\ s[2] \in Digits THEN RunEnd(s, 2, Digits) ELSE 0)
  IN IF mant = 0 THEN 0
     ELSE LET e == mant + 1 IN
          IF e <= Len(s) /\ s[e] \in {"e", "E"}
          THEN LET sg == IF e + 1 <= Len(s) /\ s[e + 1] \in {"+", "-"} THEN e + 2 ELSE e + 1
                   de == RunEnd(s, sg, Digits)
               IN IF de >= sg THEN de ELSE mant
          ELSE mant

\* common.ESCAPED_STRING: from a double quote to the next double quote that is not escaped, on one line
RECURSIVE StrScan(_, _, _)
StrScan(s, i, esc) ==
  IF i > Len(s) \/ s[i] \in {"\n", "\r"} THEN 0
  ELSE IF esc THEN StrScan(s, i + 1, FALSE)
  ELSE IF s[i] = "\\" THEN StrScan(s, i + 1, TRUE)
  ELSE IF s[i] = "\"" THEN i
  ELSE StrScan(s, i + 1, FALSE)
StrEnd(s) == IF s # <<>> /\ s[1] = "\"" THEN StrScan(s, 2, FALSE) ELSE 0

OpEnd(s) == IF Len(s) >= 2 /\ <<s[1], s[2]>> \in Op2 THEN 2
            ELSE IF s # <<>> /\ s[1] \in Op1 THEN 1 ELSE 0

Max2(a, b) == IF a >= b THEN a ELSE b
LongestPred(s) == Max2(Max2(WordEnd(s), VarEnd(s)), Max2(Max2(NumEnd(s), StrEnd(s)), OpEnd(s)))

(***************************************************************************)
(* Property level (outside braces).  CHANNEL_NAME =                         *)
(*   [/~]? LETTER [0-9a-zA-Z_]* ( "/" LETTER [0-9a-zA-Z_]* )*               *)
(* A channel name that merely BEGINS with a keyword (nothing, no_go, and    *)
(* also no/go, after/x: the maximal channel name is not the keyword) is one *)
(* name.  What a word is depends on the token before it - the only context  *)
(* the property level needs: after `as` comes an alias (CNAME), after a     *)
(* number a time unit.                                                      *)
(***************************************************************************)
Letters == Lower \cup Upper
RECURSIVE ChanSegs(_, _)
\* s[i] is the first character of a segment (must be a letter): end of the longest run of segments
ChanSegs(s, i) ==
  IF i <= Len(s) /\ s[i] \in Letters
  THEN LET e == RunEnd(s, i + 1, WordChars) IN
       IF e + 2 <= Len(s) /\ s[e + 1] = "/" /\ s[e + 2] \in Letters THEN ChanSegs(s, e + 2) ELSE e
  ELSE 0
ChanEnd(s) == IF s = <<>> THEN 0
              ELSE IF s[1] \in {"/", "~"} THEN ChanSegs(s, 2) ELSE ChanSegs(s, 1)
OpProp == {"(", ")", ":", "{", "}"}
OpPropEnd(s) == IF s # <<>> /\ s[1] \in OpProp THEN 1 ELSE 0
PrevIs(cls, str) == toks # <<>> /\ toks[Len(toks)].c = cls /\ (str = "" \/ toks[Len(toks)].s = str)
LongestProp(s) == IF PrevIs("KW", "as") THEN WordEnd(s)
                  ELSE Max2(Max2(ChanEnd(s), WordEnd(s)), Max2(NumEnd(s), OpPropEnd(s)))

AtPropLevel == PropMode /\ depth = 0
Longest(s) == IF AtPropLevel THEN LongestProp(s) ELSE LongestPred(s)

RECURSIVE Join(_)
Join(s) == IF s = <<>> THEN "" ELSE s[1] \o Join(Tail(s))

ClassProp(w) ==
  IF NumEnd(w) = Len(w) THEN "NUM"
  ELSE IF OpPropEnd(w) = Len(w) THEN "OP"
  ELSE LET str == Join(w) IN
       IF PrevIs("KW", "as") THEN "NAME"
       ELSE IF str \in PropKeywords THEN "KW"
       ELSE IF PrevIs("NUM", "") /\ str \in {"s", "ms"} THEN "UNIT"
       ELSE IF ChanEnd(w) = Len(w) THEN "CHAN" ELSE "NAME"

ClassPred(w) ==
  IF WordEnd(w) = Len(w)
  THEN LET str == Join(w) IN
       IF str \in Keywords THEN "KW" ELSE IF str \in Booleans THEN "BOOL"
       ELSE IF str \in Constants THEN "CONST" ELSE "NAME"
  ELSE IF VarEnd(w) = Len(w) THEN "VAR"
  ELSE IF NumEnd(w) = Len(w) THEN "NUM"
  ELSE IF StrEnd(w) = Len(w) THEN "STR"
  ELSE "OP"

Class(w) == IF AtPropLevel THEN ClassProp(w) ELSE ClassPred(w)

(***************************************************************************)
(* The machine                                                              *)
(***************************************************************************)
RECURSIVE Concats(_)
Concats(k) == IF k = 0 THEN {<<>>} ELSE LET r == Concats(k - 1) IN r \cup {a \o p : a \in r, p \in Pieces}

Inputs == IF Given # {} THEN Given
          ELSE {Prefix \o t : t \in {u \in (IF Pieces = {} THEN UNION {[1..n -> Sigma] : n \in 0..MaxLen} ELSE Concats(MaxPieces)) :
                                          IF u = <<>> THEN "" \in First ELSE u[1] \in First}}

Rest == SubSeq(text, pos, Len(text))

Init == text \in Inputs /\ pos = 1 /\ toks = <<>> /\ greedy = TRUE /\ depth = 0

SkipWS == /\ pos <= Len(text) /\ text[pos] \in WS
          /\ pos' = pos + 1 /\ UNCHANGED <<text, toks, greedy, depth>>

Emit(k, g) == LET w == SubSeq(text, pos, pos + k - 1) IN
              /\ toks' = Append(toks, [c |-> Class(w), s |-> Join(w), at |-> pos, n |-> k])
              /\ depth' = (IF k = 1 /\ w[1] = "{" THEN depth + 1 ELSE IF k = 1 /\ w[1] = "}" /\ depth > 0 THEN depth - 1 ELSE depth)
              /\ pos' = pos + k /\ greedy' = g /\ UNCHANGED text

Munch == /\ pos <= Len(text) /\ text[pos] \notin WS
         /\ Longest(Rest) > 0
         /\ Emit(Longest(Rest), greedy)

MunchShortOp == /\ pos <= Len(text) /\ ~AtPropLevel /\ OpEnd(Rest) = 2 /\ text[pos] \in Op1
                /\ Emit(1, FALSE)

Next == SkipWS \/ Munch \/ MunchShortOp
Spec == Init /\ [][Next]_vars

AtEnd == pos = Len(text) + 1
Stuck == pos <= Len(text) /\ text[pos] \notin WS /\ Longest(Rest) = 0

\* a number directly followed by a word (`1and`, `2x`, `1.E`): whether such text lexes is not stated anywhere
Adjacent == \E i \in 1..(Len(toks) - 1) :
               /\ toks[i].c = "NUM" /\ toks[i + 1].c \in {"NAME", "KW", "BOOL", "CONST", "CHAN"}
               /\ toks[i + 1].at = toks[i].at + toks[i].n

(***************************************************************************)
(* Model-level theorems (checked by TLC as invariants of the machine)       *)
(***************************************************************************)
TypeOK == /\ pos \in 1..(Len(text) + 1)
          /\ \A i \in 1..Len(toks) : toks[i].c \in {"NAME", "KW", "BOOL", "CONST", "VAR", "NUM", "STR", "OP", "CHAN", "UNIT"}
          /\ depth >= 0

\* tokens never overlap, never contain white space at their ends, and cover every non-blank character
Covering == AtEnd => \A j \in 1..Len(text) :
               text[j] \notin WS => \E i \in 1..Len(toks) :
                   toks[i].at <= j /\ j < (IF i < Len(toks) THEN toks[i + 1].at ELSE Len(text) + 1)

\* longest match: on the greedy path no word, variable or number is directly followed by a character that
\* would have extended it
MaximalWords == greedy => \A i \in 1..Len(toks) :
                  LET e == toks[i].at + toks[i].n IN
                  e <= Len(text) =>
                     /\ (toks[i].c \in {"NAME", "KW", "BOOL", "CONST", "VAR"} => text[e] \notin WordChars)
                     /\ (toks[i].c = "NUM" => text[e] \notin Digits)
                     /\ (toks[i].c = "CHAN" => text[e] \notin WordChars
                                                /\ ~(text[e] = "/" /\ e + 1 <= Len(text) /\ text[e + 1] \in Letters))

\* Emission (used with -workers 1): always TRUE
EmitLex == /\ AtEnd  => PrintT(<<"L", ToJson([text |-> Join(text), toks |-> toks, greedy |-> greedy, adj |-> Adjacent])>>)
           /\ Stuck  => PrintT(<<"E", ToJson([text |-> Join(text), greedy |-> greedy])>>)
=============================================================================
