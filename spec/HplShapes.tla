--------------------------------- MODULE HplShapes ---------------------------------
(* Property SHAPES for C02 / C11 / C12: scope kind x pattern kind x simple or          *)
(* disjunctive event in each position x alias placement x reference placement, as      *)
(* concrete-syntax trees of HplGrammar (so Tokens and Ast apply).  Each family is a     *)
(* finite set enumerated completely by TLC.                                             *)
EXTENDS HplTypedGen

CONSTANT ShapeFamily

Ev(ch, al, pr) == [k |-> "event", ch |-> ch, alias |-> al, pred |-> pr]
NoPred == [k |-> "nopred"]
Pr(c) == [k |-> "pred", c |-> c]
RefP(a) == Pr(Bn("=", Own("x"), Fld(VarR("@" \o a), "x")))      \* { x = @a.x }
Plain == Pr(Bn(">", Own("x"), NumA("0")))
QBody(a) == Pr(Qn("forall", "k", Own("xs"), Bn(">", K, Fld(VarR("@" \o a), "x"))))     \* reference in a quantifier body
QDom(a) == Pr(Qn("exists", "k", Fld(VarR("@" \o a), "xs"), Bn(">", K, NumA("0"))))    \* reference in a quantifier domain
QUnused == Pr(Qn("forall", "k", Own("xs"), Bn(">", Own("x"), NumA("0"))))
QOwnDom == Pr(Qn("forall", "k", Fld(K, "xs"), Bn(">", K, NumA("0"))))
QOwnDomRange == Pr(Qn("forall", "k", Rng("[", NumA("0"), K, "]"), Bn(">", Idx(Own("xs"), K), NumA("0"))))     \* own variable inside a literal domain
QOwnDomSet == Pr(Qn("exists", "k", SetOf(<<NumA("1"), K>>), Bn(">", K, Own("x"))))
QOwnDomDeep == Pr(Qn("forall", "k", Rng("[", NumA("0"), Call("len", Fld(K, "xs")), "]"), Bn(">", K, Own("x"))))
QNested == Pr(Qn("forall", "k", Own("xs"), Qn("exists", "k", Own("ys"), Bn(">", K, NumA("0")))))
QNestedAfterUse == Pr(Qn("forall", "k", Own("xs"), Bn("and", Bn(">", K, NumA("0")), Qn("exists", "k", Own("ys"), Bn("<", K, NumA("1"))))))
QNestedDeep == Pr(Qn("forall", "k", Own("xs"), Bn("implies", Bn(">", K, NumA("0")), Un("not", Qn("exists", "j", Own("ys"), Qn("forall", "k", Own("zs"), Bn("<", K, J)))))))
QUnusedAfter == Pr(Bn("and", Bn(">", Own("x"), NumA("0")), Qn("exists", "k", Own("ys"), Bn("<", Own("x"), NumA("1")))))
QNestedOK == Pr(Qn("forall", "k", Own("xs"), Qn("exists", "j", Own("ys"), Bn(">", K, J))))

\* a quantifier whose variable has the name of an alias, and a reference to that NAME outside the quantifier (free there:
\* it denotes the alias if an earlier event binds it, and nothing otherwise)
QFreeAfter(a) == Pr(Bn("and", Qn("forall", a, Own("xs"), Bn(">", VarR("@" \o a), NumA("0"))), Bn("=", Own("x"), Fld(VarR("@" \o a), "x"))))
QFreeBefore(a) == Pr(Bn("and", Bn("=", Own("x"), Fld(VarR("@" \o a), "x")), Qn("exists", a, Own("xs"), Bn(">", VarR("@" \o a), NumA("0")))))
QFreeIdx(a) == Pr(Bn("or", Qn("exists", a, Own("xs"), Bn(">", VarR("@" \o a), Own("x"))), Bn(">", Idx(Own("ys"), Fld(VarR("@" \o a), "i")), NumA("0"))))

\* options for one event position: <<alias, predicate>>
RefIdx(a) == Pr(Bn(">", Idx(Own("xs"), Fld(VarR("@" \o a), "i")), NumA("0")))     \* { xs[@a.i] > 0 }: the reference only inside an index
Opts6 == {<<"", NoPred>>, <<"A", NoPred>>, <<"B", Plain>>, <<"", RefP("A")>>, <<"", RefP("B")>>, <<"A", RefP("B")>>}
OptsQ == {<<"", RefIdx("A")>>, <<"", RefIdx("B")>>, <<"B", RefIdx("A")>>,
          <<"", QFreeAfter("A")>>, <<"", QFreeBefore("A")>>, <<"", QFreeIdx("A")>>, <<"", QFreeAfter("B")>>, <<"B", QFreeAfter("A")>>,
          <<"", Pr(Bn(">", Fld(Idx(Idx(Own("ys"), NumA("0")), Fld(VarR("@A"), "i")), "z"), NumA("0")))>>,
          <<"", Pr(Bn("in", Own("x"), Rng("[", NumA("0"), Idx(Own("xs"), Fld(VarR("@A"), "i")), "]")))>>,
          <<"", Pr(Qn("forall", "k", Own("xs"), Bn(">", Idx(Own("ys"), Fld(VarR("@A"), "i")), K)))>>,
          <<"", QBody("A")>>, <<"", QDom("A")>>, <<"B", QBody("A")>>, <<"", QUnused>>, <<"", QOwnDom>>, <<"", QOwnDomRange>>, <<"", QOwnDomSet>>, <<"", QOwnDomDeep>>, <<"", QNested>>, <<"", QNestedAfterUse>>, <<"", QNestedDeep>>, <<"", QUnusedAfter>>,
          <<"", QNestedOK>>, <<"A", RefP("A")>>, <<"A", QBody("A")>>,
          \* references in an index that sits BELOW a field access: the chain hangs from an alias / a quantified variable / an own field
          <<"", Pr(Bn(">", Fld(Idx(Fld(VarR("@A"), "xs"), Fld(VarR("@B"), "i")), "f"), NumA("0")))>>,
          <<"", Pr(Bn(">", Fld(Idx(Fld(VarR("@B"), "xs"), Fld(VarR("@A"), "i")), "f"), NumA("0")))>>,
          <<"", Pr(Qn("forall", "k", Own("ys"), Qn("forall", "j", Rng("[", NumA("0"), NumA("3"), "]"), Bn(">", Fld(Idx(Fld(K, "xs"), J), "f"), NumA("0")))))>>,
          <<"", Pr(Qn("forall", "k", Rng("[", NumA("0"), NumA("3"), "]"), Bn(">", Fld(Idx(Own("ps"), K), "x"), NumA("0"))))>>,
          <<"", Pr(Qn("exists", "k", Own("ys"), Bn(">", Fld(Idx(Fld(K, "xs"), Fld(VarR("@A"), "i")), "f"), NumA("0"))))>>,
          <<"", Pr(Bn(">", Fld(Fld(Idx(Own("ps"), Fld(VarR("@A"), "i")), "x"), "y"), NumA("0")))>>,
          \* sibling quantifiers re-using a name inside the condition of an outer quantifier (neither is in the scope of the other)
          <<"", Pr(Qn("forall", "k", Own("xs"), Bn("and", Qn("exists", "j", Own("ys"), Bn(">", J, K)), Qn("exists", "j", Own("zs"), Bn("<", J, Fld(VarR("@A"), "x"))))))>>}

Scope(t, p, q) == IF t = "globally" THEN [k |-> "scope", t |-> t]
                  ELSE IF t = "after" THEN [k |-> "scope", t |-> t, p |-> p]
                  ELSE IF t = "until" THEN [k |-> "scope", t |-> t, q |-> q]
                  ELSE [k |-> "scope", t |-> t, p |-> p, q |-> q]
Pat1(t, b) == [k |-> "pat1", t |-> t, b |-> b, time |-> [k |-> "notime"]]
Pat2(t, a, b) == [k |-> "pat2", t |-> t, a |-> a, b |-> b, time |-> [k |-> "notime"]]
Prop(s, p) == [k |-> "prop", scope |-> s, pat |-> p]

EvP(o) == Ev("p", o[1], o[2])
EvQ(o) == Ev("q", o[1], o[2])
EvA(o) == Ev("a", o[1], o[2])
EvB(o) == Ev("b", o[1], o[2])

Scopes(O) == {Scope("globally", NoPred, NoPred)}
             \cup {Scope("after", EvP(o), NoPred) : o \in O}
             \cup {Scope("until", NoPred, EvQ(o)) : o \in O}
             \cup {Scope("after_until", EvP(o1), EvQ(o2)) : o1 \in O, o2 \in O}
Patterns(O) == {Pat1(t, EvB(o)) : t \in {"some", "no"}, o \in O}
               \cup {Pat2(t, EvA(o1), EvB(o2)) : t \in {"causes", "forbids", "requires"}, o1 \in O, o2 \in O}

\* all-simple events, every alias / reference placement
SimpleShapes == {Prop(s, p) : s \in Scopes(Opts6), p \in Patterns(Opts6)}

\* one position takes an option from the quantifier / hygiene pool, the others the plain pool
QuantShapes ==
  {Prop(s, p) : s \in {Scope("globally", NoPred, NoPred)} \cup {Scope("after", EvP(o), NoPred) : o \in {<<"A", NoPred>>, <<"", NoPred>>}},
                p \in {Pat1(t, EvB(o)) : t \in {"some", "no"}, o \in OptsQ}
                      \cup {Pat2(t, EvA(o1), EvB(o2)) : t \in {"causes", "requires"}, o1 \in {<<"A", NoPred>>, <<"B", NoPred>>}, o2 \in OptsQ}
                      \cup {Pat2(t, EvA(o1), EvB(o2)) : t \in {"causes", "requires"}, o1 \in OptsQ, o2 \in {<<"A", NoPred>>, <<"", NoPred>>}}}

\* disjunctions: width 2 in one or two positions; sibling references; duplicate channels; shared aliases
Dj(es) == [k |-> "edisj", es |-> es]
DisjA == {Dj(<<Ev("a", o1[1], o1[2]), Ev("a2", o2[1], o2[2])>>) : o1 \in Opts6, o2 \in Opts6}
         \cup {Dj(<<Ev("a", "", NoPred), Ev("a", "", Plain)>>), Dj(<<Ev("a", "A", NoPred), Ev("a2", "", NoPred), Ev("a", "", NoPred)>>)}
DisjShapes ==
  {Prop(s, Pat2(t, d, EvB(o))) : s \in {Scope("globally", NoPred, NoPred), Scope("after", EvP(<<"B", NoPred>>), NoPred)},
                                  t \in {"causes", "requires"}, d \in DisjA, o \in {<<"", NoPred>>, <<"", RefP("A")>>, <<"A", NoPred>>}}
  \cup {Prop(Scope("after", d, NoPred), Pat1("no", EvB(o))) : d \in DisjA, o \in {<<"", RefP("A")>>, <<"B", NoPred>>}}
  \cup {Prop(Scope("after_until", EvP(<<"A", NoPred>>), d), Pat1("some", EvB(<<"", NoPred>>))) : d \in DisjA}

\* widths 1..4 in every event position (C11 / C12); aliases never referenced across alternatives
Wide(names, w, pr) == IF w = 1 THEN Ev(names[1], "", pr)
                      ELSE Dj([i \in 1..w |-> Ev(names[i], IF i = 2 THEN "" ELSE "", IF i = w THEN pr ELSE NoPred)])
WPN == <<"p1", "p2", "p3", "p4">>
WQN == <<"q1", "q2", "q3", "q4">>
WAN == <<"a1", "a2", "a3", "a4">>
WBN == <<"b1", "b2", "b3", "b4">>
W == 1..4
WidthShapes ==
  {Prop(s, p) :
     s \in {Scope("globally", NoPred, NoPred)}
           \cup {Scope("after", Wide(WPN, w, Plain), NoPred) : w \in W}
           \cup {Scope("until", NoPred, Wide(WQN, w, NoPred)) : w \in W}
           \cup {Scope("after_until", Wide(WPN, w1, NoPred), Wide(WQN, w2, Plain)) : w1 \in W, w2 \in W},
     p \in {Pat1(t, Wide(WBN, w, Plain)) : t \in {"some", "no"}, w \in W}
           \cup {Pat2(t, Wide(WAN, w1, NoPred), Wide(WBN, w2, Plain)) : t \in {"causes", "forbids", "requires"}, w1 \in W, w2 \in W}}

\* shapes for the monitor (C12): simple activator, the split event is a disjunction x1 | x2,
\* payload field v, predicates { v = 1 }, { v = @P.v }, { v != @X.v }; time bound none / 1 s / 2 s
VEq(c)   == Pr(Bn("=", Own("v"), c))
VNeq(c)  == Pr(Bn("!=", Own("v"), c))
AV(a)    == Fld(VarR("@" \o a), "v")
MonScopes == {Scope("globally", NoPred, NoPred),
              Scope("after", Ev("p", "P", VEq(NumA("1"))), NoPred),
              Scope("until", NoPred, Ev("q", "", NoPred)),
              Scope("after_until", Ev("p", "P", NoPred), Ev("q", "", VEq(AV("P")))),
              Scope("after_until", Ev("p", "", NoPred), Ev("q", "", NoPred)),
              Scope("until", NoPred, Dj(<<Ev("q", "", NoPred), Ev("p", "", VEq(NumA("1")))>>))}
X12(al1, pr1, al2, pr2) == Dj(<<Ev("x1", al1, pr1), Ev("x2", al2, pr2)>>)
X123 == Dj(<<Ev("x1", "", NoPred), Ev("x2", "", VEq(NumA("1"))), Ev("x3", "", NoPred)>>)
MonTimes == {[k |-> "notime"], [k |-> "time", num |-> "1", unit |-> "s"], [k |-> "time", num |-> "2", unit |-> "s"]}
WithTime(p, tm) == [p EXCEPT !.time = tm]
PFalse == Pr(BoolA("False"))
PTrue == Pr(BoolA("True"))
MonPatterns ==
  { Pat1("no", X12("", NoPred, "", VEq(NumA("1")))), Pat1("no", X123), Pat1("some", X12("", NoPred, "", VEq(NumA("1")))),
    Pat2("causes", X12("", NoPred, "", VEq(NumA("1"))), Ev("y", "", NoPred)),
    Pat2("causes", X12("X", NoPred, "X", NoPred), Ev("y", "", VEq(AV("X")))),
    Pat2("causes", X12("X", VEq(NumA("1")), "", NoPred), Ev("y", "", VNeq(NumA("1")))),
    Pat2("forbids", Ev("y", "", NoPred), X12("", NoPred, "", VEq(NumA("1")))),
    Pat2("forbids", Ev("y", "Y", NoPred), X12("", VEq(AV("Y")), "", VNeq(AV("Y")))),
    Pat2("forbids", Ev("y", "", VEq(NumA("1"))), X123),
    Pat2("requires", X12("", NoPred, "", VEq(NumA("1"))), Ev("y", "", NoPred)),
    Pat2("requires", X12("X", NoPred, "X", NoPred), Ev("y", "", VEq(AV("X")))),
    Pat2("requires", X12("", VEq(NumA("1")), "", NoPred), Ev("y", "Y", VEq(NumA("1")))),
    \* disjunctions in positions that must NOT be split
    Pat2("requires", Ev("y", "", NoPred), X12("", NoPred, "", VEq(NumA("1")))),
    Pat2("requires", Ev("y", "Y", NoPred), X12("", VEq(AV("Y")), "", NoPred)),
    Pat2("requires", X12("", NoPred, "", NoPred), Dj(<<Ev("y", "", NoPred), Ev("x3", "", VEq(NumA("1")))>>)),
    Pat2("causes", Ev("y", "", NoPred), X12("", NoPred, "", VEq(NumA("1")))),
    Pat2("causes", X12("", NoPred, "", NoPred), Dj(<<Ev("y", "", NoPred), Ev("x3", "", VEq(NumA("1")))>>)),
    Pat2("forbids", X12("", NoPred, "", VEq(NumA("1"))), Ev("y", "", NoPred)),
    Pat2("forbids", X12("X", NoPred, "", NoPred), Dj(<<Ev("y", "", NoPred), Ev("x3", "", VEq(NumA("1")))>>)),
    \* events that can never / always be observed (literal False / True predicates) in split and unsplit positions
    Pat2("requires", X12("", NoPred, "", NoPred), Ev("y", "", PFalse)),
    Pat2("requires", X12("", NoPred, "", VEq(NumA("1"))), Dj(<<Ev("y", "", PFalse), Ev("x3", "", PFalse)>>)),
    Pat2("requires", X12("", PFalse, "", NoPred), Ev("y", "", NoPred)),
    Pat2("forbids", Ev("y", "", NoPred), X12("", PFalse, "", PFalse)),
    Pat2("forbids", Ev("y", "", PFalse), X12("", NoPred, "", NoPred)),
    Pat2("causes", X12("", PFalse, "", NoPred), Ev("y", "", PFalse)),
    Pat2("causes", X12("", NoPred, "", NoPred), Ev("y", "", PFalse)),
    Pat1("no", X12("", PFalse, "", PTrue)), Pat1("some", X12("", PFalse, "", PFalse)),
    \* three alternatives of which some (not all) carry an alias
    Pat1("no", Dj(<<Ev("x1", "X", NoPred), Ev("x2", "Z", VEq(NumA("1"))), Ev("x3", "", NoPred)>>)),
    Pat2("causes", Dj(<<Ev("x1", "X", NoPred), Ev("x3", "", NoPred), Ev("x2", "Z", NoPred)>>), Ev("y", "", NoPred)),
    Pat2("forbids", Ev("y", "", NoPred), Dj(<<Ev("x3", "", VEq(NumA("1"))), Ev("x1", "X", NoPred), Ev("x2", "Z", NoPred)>>)) }
\* an alternative of the split event on the SAME topic as the terminator, with another predicate
MonSameTopic ==
  {Prop(s, WithTime(p, tm)) :
     s \in {Scope("until", NoPred, Ev("q", "", VEq(NumA("1")))), Scope("after_until", Ev("p", "P", NoPred), Ev("q", "", VEq(AV("P"))))},
     p \in {Pat1("no", Dj(<<Ev("q", "", VEq(NumA("0"))), Ev("x2", "", NoPred)>>)),
            Pat2("forbids", Ev("y", "Y", NoPred), Dj(<<Ev("q", "", VNeq(AV("Y"))), Ev("x2", "", NoPred)>>)),
            Pat2("requires", Dj(<<Ev("x1", "", VEq(NumA("1"))), Ev("q", "", VEq(NumA("0")))>>), Ev("y", "", NoPred)),
            Pat2("causes", Dj(<<Ev("q", "", VEq(NumA("0"))), Ev("x2", "", NoPred)>>), Ev("y", "", NoPred))},
     tm \in MonTimes}
\* a time bound of ZERO (the bound is a value like any other: 0 s is not "no bound")
MonZeroTime ==
  {Prop(s, WithTime(p, [k |-> "time", num |-> "0", unit |-> "s"])) :
     s \in {Scope("globally", NoPred, NoPred), Scope("after", Ev("p", "P", VEq(NumA("1"))), NoPred)},
     p \in {Pat1("no", X12("", NoPred, "", VEq(NumA("1")))), Pat1("some", X12("", NoPred, "", VEq(NumA("1")))),
            Pat2("causes", X12("", NoPred, "", VEq(NumA("1"))), Ev("y", "", NoPred)),
            Pat2("forbids", Ev("y", "", NoPred), X12("", NoPred, "", VEq(NumA("1")))),
            Pat2("requires", X12("", NoPred, "", VEq(NumA("1"))), Ev("y", "", NoPred))}}
MonShapes == {Prop(s, WithTime(p, tm)) : s \in MonScopes, p \in MonPatterns, tm \in MonTimes} \cup MonSameTopic \cup MonZeroTime

\* references against message schemas (C04 / C17): a reference R in every position of a predicate
SRefs == { Own("n"), Own("k"), Own("s"), Own("b"), Own("K"), Own("nope"),
           Idx(Own("xs"), NumA("0")), Idx(Own("xs"), NumA("7")), Idx(Own("fx"), NumA("2")), Idx(Own("fx"), NumA("3")),
           Fld(Own("m"), "n"), Fld(Own("m"), "t"), Fld(Fld(Own("m"), "deep"), "z"), Fld(Own("m"), "nope"),
           Fld(Fld(Own("m"), "deep"), "nope"), Fld(Own("n"), "x"), Fld(Own("xs"), "n"), Idx(Own("n"), NumA("0")), Idx(Own("m"), NumA("0")),
           Fld(Idx(Own("ms"), NumA("0")), "n"), Fld(Idx(Own("ms"), NumA("1")), "nope"), Fld(Idx(Own("mf"), NumA("1")), "t"),
           Fld(Idx(Own("mf"), NumA("2")), "n"), Fld(Idx(Own("mf"), NumA("1")), "n"),
           Fld(VarR("@A"), "n"), Fld(Fld(Fld(VarR("@A"), "m"), "deep"), "z"), Fld(VarR("@A"), "nope"),
           Idx(Fld(VarR("@A"), "fx"), NumA("3")), Idx(Fld(VarR("@A"), "fx"), NumA("1")), Fld(VarR("@A"), "s"),
           Idx(Own("xs"), Own("k")), Idx(Own("fx"), Own("k")),
           Idx(Own("fx"), ConstA("NAN")), Idx(Own("fx"), ConstA("INF")), Idx(Own("xs"), ConstA("NAN")), Idx(Fld(VarR("@A"), "fx"), ConstA("NAN")),
           Idx(Own("fz"), NumA("0")), Idx(Own("fz"), NumA("1")), Idx(Own("fz"), Own("k")), Idx(Own("f1"), NumA("0")), Idx(Own("f1"), NumA("1")),
           Idx(Fld(VarR("@A"), "fz"), NumA("0")) }
SArrs == { Own("xs"), Own("fx"), Own("n"), Own("nope"), Fld(VarR("@A"), "xs"), Fld(Own("m"), "n"), Own("ms") }
SCtx(r) == { Bn(">", r, NumA("0")), Bn("=", r, StrA("$s")), Un("not", r),
             Bn(">", Fld(Idx(Own("ms"), r), "n"), NumA("0")), Bn("=", Fld(Fld(Idx(Own("mf"), r), "deep"), "z"), Own("n")),   \* a field selected from an indexed element
             Bn(">", Idx(Own("xs"), Fld(Idx(Own("ms"), r), "n")), NumA("0")),
             Idx(Own("bs"), r),        \* the whole predicate is one accessor (bs: bool[]) and the reference sits in its index
             Bn(">", Idx(Own("xs"), r), NumA("0")),
             Bn("in", Own("n"), Rng("[", NumA("0"), r, "]")), Bn("in", Own("n"), SetOf(<<r, NumA("1")>>)),
             Bn(">", Call("abs", r), NumA("0")), Bn(">", Call("abs", Bn("+", r, NumA("1"))), Own("n")),
             Qn("forall", "j", Own("xs"), Bn(">", VarR("@j"), r)),
             \* the reference inside a LITERAL domain of a quantifier: a range bound (also under an operator), a set element
             Qn("forall", "j", Rng("[", NumA("0"), r, "]"), Bn(">", Idx(Own("xs"), VarR("@j")), NumA("0"))),
             Qn("exists", "j", Rng("![", Bn("-", r, NumA("1")), NumA("9"), "]"), Bn(">", VarR("@j"), Own("n"))),
             Qn("exists", "j", SetOf(<<NumA("0"), r>>), Bn(">", VarR("@j"), Own("n"))),
             Bn("and", Bn(">", Own("n"), NumA("0")), Bn("<", r, Own("k"))) }
SACtx(a) == { Qn("forall", "j", a, Bn(">", VarR("@j"), NumA("0"))), Bn("in", Own("n"), a), Bn(">", Call("len", a), NumA("0")) }
SPreds == UNION {SCtx(r) : r \in SRefs} \cup UNION {SACtx(a) : a \in SArrs}
\* the same path twice in one predicate: once in a loosely typed context, once in a context that may contradict the schema
SRepeat ==
  UNION {{Bn("and", Bn("=", r, Own("k")), Bn(">", r, NumA("1"))), Bn("and", Bn(">", r, NumA("1")), Bn("=", r, Own("k"))),
          Bn("or", Bn("=", r, Own("s")), Un("not", r)), Bn("and", Bn("in", r, SetOf(<<NumA("1"), StrA("$s")>>)), Bn("<", r, NumA("2"))),
          Bn("and", Bn("!=", r, Fld(VarR("@A"), "s")), Bn("=", Call("abs", r), NumA("1")))}
         : r \in {Own("s"), Own("n"), Own("b"), Fld(Own("m"), "t"), Fld(VarR("@A"), "s"), Fld(VarR("@A"), "n"),
                  Fld(Idx(Own("ms"), Own("k")), "t"), Idx(Own("xs"), NumA("0"))}}
SBound == { \* the variable ranges over numbers / over arrays (gg: Inner[][]): a field path through it does not resolve
            Qn("forall", "j", Own("xs"), Bn(">", Fld(VarR("@j"), "n"), NumA("0"))),
            Qn("exists", "j", Own("gg"), Bn(">", Fld(VarR("@j"), "n"), NumA("0"))),
            Qn("forall", "j", Idx(Own("gg"), NumA("0")), Bn(">", Fld(VarR("@j"), "n"), NumA("0"))),
            Qn("forall", "j", Idx(Own("gg"), Own("k")), Bn(">", Fld(VarR("@j"), "nope"), NumA("0"))),
            Qn("exists", "j", Fld(VarR("@A"), "gg"), Bn("=", Fld(VarR("@j"), "t"), Own("s"))),
            Qn("forall", "j", Fld(Idx(Own("ms"), Idx(Own("fx"), NumA("3"))), "deep"), Bn(">", VarR("@j"), NumA("0"))),
            Qn("forall", "j", Idx(Own("xs"), Own("nope")), Bn(">", VarR("@j"), NumA("0"))),
            Qn("exists", "j", Fld(VarR("@A"), "xs"), Bn(">", Idx(Own("xs"), Idx(Own("fx"), NumA("5"))), VarR("@j"))), Qn("forall", "j", Own("ms"), Bn(">", Fld(VarR("@j"), "n"), NumA("0"))),
            Qn("forall", "j", Own("ms"), Bn(">", Fld(VarR("@j"), "nope"), NumA("0"))),
            Qn("exists", "j", Own("mf"), Bn(">", Fld(VarR("@j"), "t"), NumA("0"))),
            Qn("exists", "j", Fld(VarR("@A"), "ms"), Bn("=", Fld(Fld(VarR("@j"), "deep"), "z"), Own("n"))),
            Qn("forall", "j", Own("ms"), Qn("exists", "i", Own("xs"), Bn("<", VarR("@i"), Fld(VarR("@j"), "n")))),
            Qn("forall", "j", Own("ms"), Bn(">", Idx(Own("xs"), Fld(VarR("@j"), "n")), Fld(VarR("@j"), "t"))) }
SDisjAlias ==
  {Prop(Scope("globally", NoPred, NoPred), Pat2(t, d, Ev("u", "", Pr(c)))) :
      t \in {"causes", "forbids"},
      d \in {Dj(<<Ev("w", "", Pr(Bn(">", Own("q"), NumA("0")))), Ev("t", "A", NoPred)>>),
             Dj(<<Ev("w", "", NoPred), Ev("u", "", NoPred), Ev("t", "A", Pr(Bn(">", Own("n"), NumA("0"))))>>),
             Dj(<<Ev("t", "A", NoPred), Ev("w", "", NoPred)>>),
             Dj(<<Ev("w", "W", NoPred), Ev("t", "A", NoPred)>>)},
      c \in {Bn(">", Own("n"), Fld(VarR("@A"), "n")), Bn("=", Own("s"), Fld(VarR("@A"), "s")), Bn(">", Own("n"), Fld(VarR("@A"), "q")),
             Bn(">", Idx(Fld(VarR("@A"), "fx"), NumA("2")), NumA("0"))}}
  \cup {Prop(Scope("after", Dj(<<Ev("w", "", NoPred), Ev("t", "A", NoPred)>>), NoPred), Pat1("no", Ev("u", "", Pr(Bn(">", Own("n"), Fld(VarR("@A"), "n"))))))}
\* a quantified variable with the name of an alias (legal shadowing): the alias must be usable again after the quantifier,
\* in the same predicate and in events checked later, and faults in those later references must still be found
SShadowQ == Qn("forall", "j", Own("ms"), Bn(">", Fld(VarR("@j"), "n"), NumA("0")))
SShadow ==
  {Prop(Scope("after", Ev("w", "j", NoPred), NoPred), Pat1("no", Ev("u", "", Pr(c)))) :
      c \in {Bn("and", SShadowQ, Bn(">", Fld(VarR("@j"), r), NumA("0"))) : r \in {"q", "nope", "n"}}
           \cup {Bn("and", Bn(">", Fld(VarR("@j"), r), NumA("0")), SShadowQ) : r \in {"q", "nope"}}
           \cup {Bn("and", SShadowQ, Bn("and", Qn("exists", "j", Own("mf"), Bn("=", Fld(VarR("@j"), "t"), Own("s"))), Bn(">", Fld(VarR("@j"), r), Own("n")))) : r \in {"q", "n"}}}
  \cup {Prop(Scope("after_until", Ev("w", "j", Pr(Bn(">", Own("q"), NumA("0")))), Ev("u", "", Pr(Bn(">", Own("k"), Fld(VarR("@j"), r))))),
              Pat1("some", Ev("t", "", Pr(SShadowQ)))) : r \in {"q", "nope", "n"}}
  \cup {Prop(Scope("after", Ev("w", "j", NoPred), NoPred), Pat2(t, Ev("t", "", Pr(SShadowQ)), Ev("u", "", Pr(Bn(">", Own("k"), Fld(VarR("@j"), r)))))) :
              t \in {"causes", "requires"}, r \in {"q", "nope"}}
\* every position of every scope / pattern combination carries a (valid or faulty) reference once: the terminator of an
\* `until` scope under a unary pattern, the activator, the trigger and the behaviour of each binary pattern
SPosRefs == {Bn(">", Own("n"), NumA("0")), Bn(">", Own("nope"), NumA("0")), Bn(">", Idx(Own("fx"), NumA("3")), NumA("0")), Bn("=", Own("s"), NumA("1"))}
SPositions ==
  {Prop(Scope("until", NoPred, Ev("u", "", Pr(c))), Pat1(t, Ev("t", "", NoPred))) : t \in {"some", "no"}, c \in SPosRefs}
  \cup {Prop(Scope("until", NoPred, Ev("u", "", Pr(c))), Pat2(t, Ev("t", "", NoPred), Ev("w", "", NoPred))) : t \in {"causes", "requires", "forbids"}, c \in SPosRefs}
  \cup {Prop(Scope("after", Ev("u", "", Pr(c)), NoPred), Pat1(t, Ev("t", "", NoPred))) : t \in {"some", "no"}, c \in SPosRefs}
  \cup {Prop(Scope("after_until", Ev("t", "", NoPred), Ev("u", "", Pr(c))), Pat1("no", Ev("w", "", NoPred))) : c \in SPosRefs}
  \cup {Prop(Scope("globally", NoPred, NoPred), Pat2(t, Ev("u", "", Pr(c)), Ev("t", "", NoPred))) : t \in {"causes", "requires", "forbids"}, c \in SPosRefs}
  \cup {Prop(Scope("globally", NoPred, NoPred), Pat2(t, Ev("t", "", NoPred), Ev("u", "", Pr(c)))) : t \in {"causes", "requires", "forbids"}, c \in SPosRefs}
\* an own-message path inside the index of an access rooted at an alias of ANOTHER message type (w: Other{n: string, q, arr, far[2]}):
\* the path is resolved in the event's own message type (M), not in the alias's
SAliasIdx ==
  {Prop(Scope("after", Ev("w", "W", NoPred), NoPred), Pat1("no", Ev("u", "", Pr(c)))) :
      c \in {Bn(">", Idx(Fld(VarR("@W"), "arr"), Own("k")), NumA("0")),          \* k: field of M only -> fine
             Bn(">", Idx(Fld(VarR("@W"), "arr"), Own("q")), NumA("0")),          \* q: field of Other only -> NoField
             Bn(">", Idx(Fld(VarR("@W"), "arr"), Idx(Own("fx"), NumA("1"))), NumA("0")),
             Bn(">", Idx(Fld(VarR("@W"), "far"), Idx(Own("fx"), NumA("3"))), NumA("0")),   \* index out of range in M.fx
             Bn(">", Idx(Fld(VarR("@W"), "arr"), Own("n")), NumA("0")),          \* n: number in M, string in Other
             Bn(">", Idx(Own("xs"), Fld(VarR("@W"), "q")), Idx(Fld(VarR("@W"), "arr"), Idx(Own("xs"), Own("k"))))}}
SchemaShapes == SDisjAlias \cup SShadow \cup SPositions \cup SAliasIdx \cup
  {Prop(Scope("after", Ev("t", "A", NoPred), NoPred), Pat1("no", Ev("u", "", Pr(c)))) : c \in SBound} \cup
  {Prop(Scope("after", Ev("t", "A", NoPred), NoPred), Pat1("no", Ev("u", "", Pr(c)))) : c \in SPreds \cup SRepeat}
  \cup {Prop(Scope("globally", NoPred, NoPred), Pat2("causes", Ev("t", "A", Pr(Bn(">", Own("n"), NumA("0")))), Ev("w", "", Pr(c)))) : c \in UNION {SCtx(r) : r \in {Own("n"), Own("q"), Fld(VarR("@A"), "n"), Fld(VarR("@A"), "q")}}}

\* predicates that are WELL-TYPED under the schema M of harness/checks/c17.py (C04):
\* n,k,K: number; b: bool; s: string; xs: number[]; fx: number[3]; m: Inner{n, t: string, deep{z}};
\* ms: Inner[]; mf: Inner[2]; alias A bound to a message of type M
WNum == { Own("n"), Own("k"), Own("K"), Idx(Own("xs"), NumA("0")), Idx(Own("xs"), Own("k")), Idx(Own("fx"), NumA("2")),
          Idx(Own("xs"), Bn("+", Own("k"), NumA("1"))), Fld(Own("m"), "n"), Fld(Fld(Own("m"), "deep"), "z"),
          Fld(Idx(Own("ms"), NumA("0")), "n"), Fld(Idx(Own("mf"), NumA("1")), "n"), Fld(Idx(Own("ms"), Own("k")), "n"),
          Fld(VarR("@A"), "n"), Fld(Fld(VarR("@A"), "m"), "n"), Idx(Fld(VarR("@A"), "xs"), NumA("1")), Fld(VarR("@A"), "K") }
WBool == { Own("b"), Fld(VarR("@A"), "b") }
WStr  == { Own("s"), Fld(Own("m"), "t"), Fld(VarR("@A"), "s"), Fld(Idx(Own("ms"), NumA("1")), "t") }
WArr  == { Own("xs"), Own("fx"), Fld(VarR("@A"), "xs") }
WTerm(r) == { r, Un("-", r), Bn("+", r, NumA("1")), Bn("*", r, Own("k")), Call("abs", r), Call("max", SetOf(<<r, NumA("2")>>)),
              Call("sum", Rng("[", NumA("0"), r, "]")), Bn("**", r, NumA("2")) }
WPreds ==
  UNION {{Bn(op, t, NumA("0")) : op \in {"=", "<", ">="}, t \in WTerm(r)} : r \in WNum}
  \cup {Bn(op, a, b) : op \in {"=", "!=", "<"}, a \in WNum, b \in {Own("n"), Fld(VarR("@A"), "n"), Idx(Own("xs"), NumA("0"))}}
  \cup {Bn("and", Bn("=", a, Own("k")), Bn(">", a, NumA("0"))) : a \in WNum}
  \cup {Bn(op, a, b) : op \in {"=", "!="}, a \in WStr, b \in WStr \cup {StrA("$s")}}
  \cup {Bn(op, a, b) : op \in {"and", "or", "implies", "iff", "="}, a \in WBool, b \in WBool \cup {Bn(">", Own("n"), NumA("0"))}}
  \cup {Un("not", a) : a \in WBool} \cup WBool
  \cup {Bn("in", a, SetOf(<<b, NumA("1")>>)) : a \in WNum, b \in {Own("k"), Fld(VarR("@A"), "n")}}
  \cup {Bn("in", a, Rng(lb, NumA("0"), b, "]")) : a \in {Own("n"), Fld(VarR("@A"), "n")}, b \in WNum, lb \in {"[", "!["}}
  \cup {Bn("in", a, c) : a \in {Own("n"), Fld(Own("m"), "n")}, c \in WArr}
  \cup {Bn("in", a, SetOf(<<StrA("$s"), b>>)) : a \in WStr, b \in WStr}
  \cup {Qn(q, "j", d, Bn(">", VarR("@j"), r)) : q \in {"forall", "exists"}, d \in WArr, r \in {NumA("0"), Own("n"), Fld(VarR("@A"), "n")}}
  \cup {Qn(q, "j", Rng("[", NumA("0"), r, "]"), Bn(">", Idx(Own("xs"), VarR("@j")), NumA("0"))) : q \in {"forall", "exists"}, r \in {NumA("2"), Own("k"), Call("len", Own("xs"))}}
  \cup {Qn("forall", "j", Rng("[", NumA("0"), NumA("1"), "]"), Bn(">", Fld(Idx(Own("ms"), VarR("@j")), "n"), NumA("0"))),
        Qn("exists", "j", Rng("[", NumA("0"), NumA("1"), "]"), Bn("=", Fld(Idx(Own("mf"), VarR("@j")), "t"), StrA("$s"))),
        Qn("forall", "j", SetOf(<<NumA("1"), Own("k")>>), Bn("=", VarR("@j"), Own("n"))),
        Qn("forall", "j", Own("ms"), Bn(">", Fld(VarR("@j"), "n"), NumA("0"))),
        Qn("exists", "j", Fld(VarR("@A"), "ms"), Bn("=", Fld(VarR("@j"), "t"), Own("s"))),
        Qn("forall", "j", SetOf(<<StrA("$s"), Own("s")>>), Bn("!=", VarR("@j"), Fld(Own("m"), "t"))),
        Qn("forall", "j", Own("xs"), Qn("exists", "i", Fld(VarR("@A"), "xs"), Bn("<", VarR("@i"), VarR("@j")))),
        \* sibling quantifiers re-using a name INSIDE the condition of an outer quantifier (neither is in the scope of the other)
        Qn("forall", "i", Rng("[", NumA("0"), NumA("2"), "]"), Bn("and", Qn("exists", "j", Own("xs"), Bn(">", VarR("@j"), VarR("@i"))),
                                                                         Qn("exists", "j", Own("fx"), Bn("<", VarR("@j"), VarR("@i"))))),
        Qn("forall", "i", Own("ra"), Bn("or", Qn("exists", "j", Fld(VarR("@i"), "items"), Bn(">", Fld(VarR("@j"), "n"), NumA("0"))),
                                              Qn("forall", "j", Own("os"), Bn("=", Fld(VarR("@j"), "n"), StrA("$s"))))),
        Qn("exists", "i", Own("xs"), Qn("forall", "j", Fld(VarR("@A"), "xs"),
              Bn("implies", Qn("forall", "h", Own("xs"), Bn(">", VarR("@h"), VarR("@j"))), Un("not", Qn("exists", "h", Own("fx"), Bn("<", VarR("@h"), VarR("@i"))))))),
        Bn(">", Call("len", Own("xs")), NumA("0")), Bn("=", Call("len", Own("fx")), NumA("3")),
        Bn("<", Call("sum", Own("xs")), Call("prod", Fld(VarR("@A"), "xs"))), Bn("=", Call("str", Own("n")), Own("s")),
        Bn("=", Call("int", Own("s")), Own("k")), Bn("and", Call("bool", Own("n")), Own("b")) }
\* the same field NAME with different types in the message types of two events of one property
\* (channel w carries Other{n: string, q: number})
WTwoEvents ==
  {Prop(Scope("globally", NoPred, NoPred), Pat2(t, Ev("t", "A", Pr(c1)), Ev("w", "", Pr(c2)))) :
      t \in {"causes", "forbids"},
      c1 \in {Bn(">", Call("abs", Own("n")), NumA("0")), Bn(">", Own("n"), NumA("0")), Bn(">", Call("len", Own("xs")), Own("n"))},
      c2 \in {Bn("=", Own("n"), StrA("$s")), Bn("and", Bn("=", Own("n"), StrA("$s")), Bn("<", Own("q"), Fld(VarR("@A"), "n"))),
              Bn("=", Call("str", Own("q")), Own("n"))}}
  \cup {Prop(Scope("after", Ev("w", "W", Pr(Bn("=", Own("n"), StrA("$s")))), NoPred), Pat1("no", Ev("u", "", Pr(c)))) :
      c \in {Bn(">", Call("abs", Own("n")), NumA("0")), Bn("and", Bn(">", Own("n"), NumA("1")), Bn("=", Own("s"), Fld(VarR("@W"), "n")))}}
\* an alias and a quantified variable with the SAME name (the quantifier shadows the alias inside its condition only)
WShadow ==
  {Prop(Scope("after", Ev("w", "j", NoPred), NoPred), Pat1("no", Ev("u", "", Pr(c)))) :
      c \in {Qn("forall", "j", Own("ms"), Bn("=", Fld(VarR("@j"), "t"), Own("s"))),
             Bn("and", Qn("forall", "j", Own("ms"), Bn(">", Fld(VarR("@j"), "n"), NumA("0"))), Bn(">", Fld(VarR("@j"), "q"), NumA("0"))),
             Bn("and", Bn("=", Fld(VarR("@j"), "n"), Own("s")), Qn("exists", "j", Own("mf"), Bn(">", Fld(VarR("@j"), "n"), NumA("0")))),
             Bn("and", Qn("forall", "j", Own("ms"), Bn(">", Fld(VarR("@j"), "n"), NumA("0"))),
                       Qn("exists", "j", Own("xs"), Bn(">", VarR("@j"), Own("n")))),
             \* the same PATH through the same NAME at two different types: the alias j is an Other (n: string), the bound
             \* j an Inner (n: number); two sibling quantifiers over Inner[] and Other[] (field os)
             Bn("and", Bn("=", Fld(VarR("@j"), "n"), StrA("$s")), Qn("exists", "j", Own("mf"), Bn(">", Fld(VarR("@j"), "n"), NumA("0")))),
             Bn("and", Qn("exists", "j", Own("mf"), Bn(">", Fld(VarR("@j"), "n"), NumA("0"))), Bn("=", Fld(VarR("@j"), "n"), StrA("$s"))),
             Bn("and", Qn("forall", "j", Own("ms"), Bn(">", Fld(VarR("@j"), "n"), NumA("0"))),
                       Qn("exists", "j", Own("os"), Bn("=", Fld(VarR("@j"), "n"), StrA("$s")))),
             Bn("or", Qn("exists", "i", Own("os"), Bn("=", Fld(VarR("@i"), "n"), StrA("$s"))),
                      Qn("forall", "i", Own("mf"), Bn("<", Fld(VarR("@i"), "n"), Own("k")))),
             \* sibling quantifiers re-binding the OUTER name over different row types (ra: {items: Inner[]}[], rb: {items: Other[]}[]),
             \* each with a nested quantifier over the same-looking domain @i.items and the same inner name
             Bn("and", Qn("forall", "i", Own("ra"), Qn("exists", "j", Fld(VarR("@i"), "items"), Bn(">", Fld(VarR("@j"), "n"), NumA("0")))),
                       Qn("forall", "i", Own("rb"), Qn("exists", "j", Fld(VarR("@i"), "items"), Bn("=", Fld(VarR("@j"), "n"), StrA("$s"))))),
             Bn("or", Qn("exists", "i", Own("rb"), Qn("forall", "j", Fld(VarR("@i"), "items"), Bn("=", Fld(VarR("@j"), "n"), Own("s")))),
                      Qn("exists", "i", Own("ra"), Qn("forall", "j", Fld(VarR("@i"), "items"), Bn("<", Fld(VarR("@j"), "n"), Own("k")))))}}
WAllPatterns ==
  {Prop(Scope("after", Ev("t", "A", NoPred), NoPred), Pat2(t, Ev("u", "B", Pr(c1)), Ev("u", "", Pr(c2)))) :
      t \in {"causes", "forbids", "requires"},
      c1 \in {Bn(">", Own("n"), NumA("0")), Bn(">", Own("n"), Fld(VarR("@A"), "n"))},
      c2 \in {Bn(">", Own("k"), Fld(VarR("@A"), "n")), Bn("=", Own("s"), Fld(VarR("@A"), "s")), Bn(">", Own("k"), NumA("0"))}}
  \cup {Prop(Scope("after_until", Ev("t", "A", NoPred), Ev("u", "", Pr(Bn(">", Own("n"), Fld(VarR("@A"), "n"))))), Pat2(t, Ev("u", "", NoPred), Ev("u", "", Pr(c2)))) :
      t \in {"causes", "forbids"}, c2 \in {Bn(">", Own("k"), Fld(VarR("@A"), "n"))}}
  \cup {Prop(Scope("after", Ev("t", "A", NoPred), NoPred), Pat2("causes", Ev("u", "B", NoPred), Ev("u", "", Pr(Bn("<", Fld(VarR("@B"), "n"), Fld(VarR("@A"), "n"))))))}
  \cup {Prop(Scope("after", Ev("t", "A", NoPred), NoPred), Pat2("requires", Ev("u", "B", NoPred), Ev("u", "", Pr(Bn("<", Fld(VarR("@B"), "n"), Fld(VarR("@A"), "n"))))))}
  \cup {Prop(Scope("after", Ev("t", "A", NoPred), NoPred), Pat1(t, Ev("u", "", Pr(Bn(">", Own("k"), Fld(VarR("@A"), "n")))))) : t \in {"some", "no"}}
\* the alias is bound by an alternative that comes AFTER un-aliased alternatives of other message types (w: Other)
WDisjAlias ==
  {Prop(Scope("globally", NoPred, NoPred), Pat2(t, d, Ev("u", "", Pr(c)))) :
      t \in {"causes", "forbids"},
      d \in {Dj(<<Ev("w", "", NoPred), Ev("t", "A", NoPred)>>), Dj(<<Ev("w", "", Pr(Bn(">", Own("q"), NumA("0")))), Ev("u", "", NoPred), Ev("t", "A", Pr(Bn(">", Own("n"), NumA("0"))))>>),
             Dj(<<Ev("w", "W", NoPred), Ev("t", "A", NoPred)>>)},
      c \in {Bn(">", Own("n"), Fld(VarR("@A"), "n")), Bn("=", Own("s"), Fld(VarR("@A"), "s")), Bn(">", Idx(Fld(VarR("@A"), "fx"), NumA("2")), NumA("0"))}}
  \cup {Prop(Scope("after", Dj(<<Ev("w", "", NoPred), Ev("t", "A", NoPred)>>), NoPred), Pat1("no", Ev("u", "", Pr(Bn(">", Own("n"), Fld(VarR("@A"), "n"))))))}
WellTypedShapes ==
  {Prop(Scope("after", Ev("t", "A", NoPred), NoPred), Pat1("no", Ev("u", "", Pr(c)))) : c \in WPreds} \cup WTwoEvents \cup WShadow \cup WAllPatterns \cup WDisjAlias

ShapeMembers ==
  CASE ShapeFamily = "simple" -> SimpleShapes
    [] ShapeFamily = "quant"  -> QuantShapes
    [] ShapeFamily = "disj"   -> DisjShapes
    [] ShapeFamily = "width"  -> WidthShapes
    [] ShapeFamily = "mon"    -> MonShapes
    [] ShapeFamily = "schema" -> SchemaShapes
    [] ShapeFamily = "welltyped" -> WellTypedShapes
    [] OTHER -> {}

SInit == cst \in ShapeMembers
SSpec == SInit /\ [][UNCHANGED cst]_cst
=============================================================================
