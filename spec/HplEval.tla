--------------------------------- MODULE HplEval ---------------------------------
(***************************************************************************)
(* Denotational semantics of HPL expressions and predicates over exact      *)
(* rationals (the documentation leaves semantics "TBD"; DESIGN section 10   *)
(* lists the modelling decisions).                                           *)
(*                                                                         *)
(* Values (tagged tuples):                                                  *)
(*   <<"b", BOOLEAN>>  <<"n", num, den>> (den > 0, normalised)  <<"s", str>> *)
(*   <<"arr", seq>>  <<"msg", record>>  <<"set", S, n>> (n = number of       *)
(*   syntactic elements)  <<"rng", lo, hi, xlo, xhi>>                        *)
(* Non-values: U (undefined), O (outside the exact model), R (depends on    *)
(* the reading of an underspecified construct).                              *)
(***************************************************************************)
EXTENDS Integers, Sequences, FiniteSets, TLC, HplAst

U == <<"U">>
O == <<"O">>
R == <<"R">>
IsVal(v) == v[1] \notin {"U", "O", "R"}
Bad(v) == v[1] \in {"U", "O", "R"}

\* the worst non-value among a set of results: U dominates O dominates R
Worst(S) == IF \E v \in S : v[1] = "U" THEN U
            ELSE IF \E v \in S : v[1] = "O" THEN O ELSE R

B(b) == <<"b", b>>
LIMIT == 30000

Abs(x) == IF x < 0 THEN -x ELSE x
RECURSIVE GcdN(_, _)
GcdN(a, b) == IF b = 0 THEN a ELSE GcdN(b, a % b)

\* normalised rational or O when out of the modelled magnitude
Q(n, d) ==
  IF d = 0 THEN U
  ELSE LET s == IF d < 0 THEN -1 ELSE 1
           g == GcdN(Abs(n), Abs(d))
           nn == (s * n) \div g
           dd == (s * d) \div g
       IN IF Abs(nn) > LIMIT \/ dd > LIMIT THEN O ELSE <<"n", nn, dd>>

IsNum(v) == v[1] = "n"
IsInt(v) == v[1] = "n" /\ v[3] = 1
Zero == <<"n", 0, 1>>
One == <<"n", 1, 1>>
N(i) == <<"n", i, 1>>

QAdd(a, b) == Q(a[2] * b[3] + b[2] * a[3], a[3] * b[3])
QSub(a, b) == Q(a[2] * b[3] - b[2] * a[3], a[3] * b[3])
QMul(a, b) == Q(a[2] * b[2], a[3] * b[3])
QDiv(a, b) == IF b[2] = 0 THEN U ELSE Q(a[2] * b[3], a[3] * b[2])
QLt(a, b) == a[2] * b[3] < b[2] * a[3]
QLe(a, b) == a[2] * b[3] <= b[2] * a[3]
QNeg(a) == <<"n", -a[2], a[3]>>

RECURSIVE QPowN(_, _)
QPowN(a, k) == IF k = 0 THEN One
               ELSE LET r == QPowN(a, k - 1) IN IF Bad(r) THEN r ELSE QMul(r, a)
QPow(a, e) ==
  IF ~IsInt(e) THEN O
  ELSE IF Abs(e[2]) > 6 THEN O
  ELSE IF e[2] >= 0 THEN QPowN(a, e[2])
  ELSE IF a[2] = 0 THEN U
  ELSE LET r == QPowN(a, -e[2]) IN IF Bad(r) THEN r ELSE QDiv(One, r)

Floor(a) == a[2] \div a[3]                       \* TLC's \div floors
Ceil(a)  == -((-a[2]) \div a[3])
Trunc(a) == IF a[2] >= 0 THEN Floor(a) ELSE Ceil(a)

\* value equality (sets: by extension only)
ValEq(a, b) == IF a[1] # b[1] THEN FALSE
               ELSE IF a[1] = "set" THEN a[2] = b[2]
               ELSE a = b

(***************************************************************************)
(* Collections                                                              *)
(***************************************************************************)
\* integers denoted by a range value, or O / a sequence
RangeInts(r) ==
  IF ~IsNum(r[2]) \/ ~IsNum(r[3]) THEN O
  ELSE IF ~IsInt(r[2]) \/ ~IsInt(r[3]) THEN O
  ELSE LET lo == r[2][2] + (IF r[4] THEN 1 ELSE 0)
           hi == r[3][2] - (IF r[5] THEN 1 ELSE 0)
       IN IF hi - lo > 12 THEN O
          ELSE <<"ints", [i \in 1..(IF hi >= lo THEN hi - lo + 1 ELSE 0) |-> N(lo + i - 1)]>>

\* the elements of a collection as a sequence (for quantifiers / aggregates), or a non-value
Elems(c, aggregate) ==
  IF c[1] = "arr" THEN <<"ints", c[2]>>
  ELSE IF c[1] = "set" THEN
       (IF aggregate /\ Cardinality(c[2]) # c[3] THEN R
        ELSE LET RECURSIVE SetSeq(_)
                 SetSeq(S) == IF S = {} THEN <<>> ELSE LET x == CHOOSE y \in S : TRUE IN <<x>> \o SetSeq(S \ {x})
             IN <<"ints", SetSeq(c[2])>>)
  ELSE IF c[1] = "rng" THEN RangeInts(c)
  ELSE U

RECURSIVE FoldNum(_, _, _)
\* fold a sequence of numbers with op \in {"+", "*", "max", "min"}; acc may be a non-value
FoldNum(q, op, acc) ==
  IF q = <<>> THEN acc
  ELSE IF Bad(acc) THEN acc
  ELSE IF ~IsNum(Head(q)) THEN (IF Bad(Head(q)) THEN Head(q) ELSE U)
  ELSE LET x == Head(q)
           nxt == IF op = "+" THEN QAdd(acc, x)
                  ELSE IF op = "*" THEN QMul(acc, x)
                  ELSE IF op = "max" THEN (IF QLt(acc, x) THEN x ELSE acc)
                  ELSE (IF QLt(x, acc) THEN x ELSE acc)
       IN FoldNum(Tail(q), op, nxt)

IsPerfectSquare(k) == \E r \in 0..200 : r * r = k
SqrtInt(k) == CHOOSE r \in 0..200 : r * r = k
\* the one fractional exponent the model knows: 1/2, on a non-negative rational whose numerator and denominator are perfect
\* squares (so that (x ** 2) ** 0.5 has a value, namely |x|)
QPowX(a, e) ==
  IF e = <<"n", 1, 2>> THEN
       (IF ~IsNum(a) THEN U ELSE IF a[2] < 0 THEN U
        ELSE IF a[2] <= 40000 /\ a[3] <= 40000 /\ IsPerfectSquare(a[2]) /\ IsPerfectSquare(a[3]) THEN Q(SqrtInt(a[2]), SqrtInt(a[3])) ELSE O)
  ELSE QPow(a, e)

(***************************************************************************)
(* Eval(n, rho, strict)                                                     *)
(*   rho == [this |-> value, vars |-> [name |-> value]]                     *)
(*   strict: TRUE  = every sub-term must be defined (used for the INPUT)    *)
(*           FALSE = Kleene connectives (used for the OUTPUT of a rewrite)  *)
(***************************************************************************)
Bind(rho, x, v) == [rho EXCEPT !.vars = [y \in (DOMAIN rho.vars) \cup {x} |-> IF y = x THEN v ELSE rho.vars[y]]]

KAnd(a, b, strict) ==
  IF IsVal(a) /\ IsVal(b) THEN (IF a[1] = "b" /\ b[1] = "b" THEN B(a[2] /\ b[2]) ELSE U)
  ELSE IF strict THEN Worst({a, b} \ {v \in {a, b} : IsVal(v)})
  ELSE IF (IsVal(a) /\ a = B(FALSE)) \/ (IsVal(b) /\ b = B(FALSE)) THEN B(FALSE)
  ELSE Worst({a, b} \ {v \in {a, b} : IsVal(v)})

KOr(a, b, strict) ==
  IF IsVal(a) /\ IsVal(b) THEN (IF a[1] = "b" /\ b[1] = "b" THEN B(a[2] \/ b[2]) ELSE U)
  ELSE IF strict THEN Worst({a, b} \ {v \in {a, b} : IsVal(v)})
  ELSE IF (IsVal(a) /\ a = B(TRUE)) \/ (IsVal(b) /\ b = B(TRUE)) THEN B(TRUE)
  ELSE Worst({a, b} \ {v \in {a, b} : IsVal(v)})

KNot(a) == IF Bad(a) THEN a ELSE IF a[1] = "b" THEN B(~a[2]) ELSE U

ExactZeroFuns == {"sin", "tan", "asin", "atan", "deg", "rad"}

RECURSIVE GcdSeq(_)
GcdSeq(q) == IF Len(q) = 1 THEN Abs(q[1][2]) ELSE GcdN(Abs(q[1][2]), GcdSeq(Tail(q)))

RECURSIVE Eval(_, _, _)

EvalSeq(q, rho, strict) == [i \in 1..Len(q) |-> Eval(q[i], rho, strict)]

ApplyFun(f, args) ==
  IF \E i \in 1..Len(args) : Bad(args[i]) THEN Worst({args[i] : i \in {j \in 1..Len(args) : Bad(args[j])}})
  ELSE LET a == args[1] IN
  CASE f = "abs"   -> IF IsNum(a) THEN <<"n", Abs(a[2]), a[3]>> ELSE U
    [] f = "bool"  -> IF a[1] = "b" THEN a ELSE IF IsNum(a) THEN B(a[2] # 0) ELSE O
    [] f = "int"   -> IF IsNum(a) THEN N(Trunc(a)) ELSE IF a[1] = "b" THEN N(IF a[2] THEN 1 ELSE 0) ELSE O
    [] f = "float" -> IF IsNum(a) THEN a ELSE IF a[1] = "b" THEN N(IF a[2] THEN 1 ELSE 0) ELSE O
    [] f = "str"   -> IF a[1] = "s" THEN a ELSE O
    [] f = "ceil"  -> IF IsNum(a) THEN N(Ceil(a)) ELSE U
    [] f = "floor" -> IF IsNum(a) THEN N(Floor(a)) ELSE U
    [] f = "sqrt"  -> IF ~IsNum(a) THEN U ELSE IF a[2] < 0 THEN U
                      ELSE IF IsPerfectSquare(a[2]) /\ IsPerfectSquare(a[3]) THEN Q(SqrtInt(a[2]), SqrtInt(a[3])) ELSE O
    [] f \in ExactZeroFuns -> IF IsNum(a) /\ a[2] = 0 THEN Zero ELSE IF IsNum(a) THEN O ELSE U
    [] f = "cos"   -> IF IsNum(a) /\ a[2] = 0 THEN One ELSE IF IsNum(a) THEN O ELSE U
    [] f = "acos"  -> IF a = One THEN Zero ELSE IF IsNum(a) THEN O ELSE U
    [] f \in {"log", "atan2"} -> O
    [] f \in {"roll", "pitch", "yaw"} -> O
    [] f = "len"   -> (IF a[1] = "s" THEN O
                       ELSE LET es == Elems(a, TRUE) IN IF es[1] = "ints" THEN N(Len(es[2])) ELSE es)
    [] f \in {"sum", "prod"} ->
          (LET es == Elems(a, TRUE) IN
           IF es[1] # "ints" THEN es
           ELSE FoldNum(es[2], IF f = "sum" THEN "+" ELSE "*", IF f = "sum" THEN Zero ELSE One))
    [] f \in {"max", "min"} ->
          (IF Len(args) = 1 THEN
              LET es == Elems(a, FALSE) IN
              IF es[1] # "ints" THEN es
              ELSE IF es[2] = <<>> THEN U
              ELSE IF ~IsNum(es[2][1]) THEN U
              ELSE FoldNum(Tail(es[2]), f, es[2][1])
           ELSE IF ~IsNum(a) THEN U ELSE FoldNum(Tail(args), f, a))
    [] f = "gcd"   -> (IF Len(args) = 2 /\ IsInt(args[1]) /\ IsInt(args[2])
                       THEN N(GcdN(Abs(args[1][2]), Abs(args[2][2])))
                       ELSE IF Len(args) = 1 /\ a[1] \in {"set", "arr", "rng"} THEN
                            \* greatest common divisor of the members of a collection of integers (non-negative; of one
                            \* member: its absolute value)
                            LET es == Elems(a, FALSE) IN
                            IF es[1] # "ints" THEN es
                            ELSE IF es[2] = <<>> THEN U
                            ELSE IF \E i \in 1..Len(es[2]) : ~IsInt(es[2][i]) THEN O
                            ELSE N(GcdSeq(es[2]))
                       ELSE O)
    [] OTHER -> O

Member(x, c) ==
  IF c[1] = "set" THEN B(\E y \in c[2] : ValEq(x, y))
  ELSE IF c[1] = "arr" THEN B(\E i \in 1..Len(c[2]) : ValEq(x, c[2][i]))
  ELSE IF c[1] = "rng" THEN
       (IF ~IsNum(x) \/ ~IsNum(c[2]) \/ ~IsNum(c[3]) THEN (IF IsNum(x) THEN O ELSE R)
        ELSE B((IF c[4] THEN QLt(c[2], x) ELSE QLe(c[2], x)) /\ (IF c[5] THEN QLt(x, c[3]) ELSE QLe(x, c[3]))))
  ELSE U

ApplyBin(op, a, b) ==
  CASE op \in ArithOps ->
         (IF ~IsNum(a) \/ ~IsNum(b) THEN U
          ELSE IF op = "+" THEN QAdd(a, b) ELSE IF op = "-" THEN QSub(a, b)
          ELSE IF op = "*" THEN QMul(a, b) ELSE IF op = "/" THEN QDiv(a, b) ELSE QPowX(a, b))
    [] op \in OrdOps ->
         (IF ~IsNum(a) \/ ~IsNum(b) THEN U
          ELSE IF op = "<" THEN B(QLt(a, b)) ELSE IF op = "<=" THEN B(QLe(a, b))
          ELSE IF op = ">" THEN B(QLt(b, a)) ELSE B(QLe(b, a)))
    [] op \in EqOps ->
         (IF a[1] # b[1] THEN R      \* comparing values of different kinds: reading-dependent
          ELSE IF a[1] \notin {"b", "n", "s"} THEN U
          ELSE B((op = "=") = (a = b)))
    [] op = "in" -> Member(a, b)
    [] OTHER -> U

EvalQuant(n, rho, strict) ==
  LET d == Eval(n.domain, rho, strict) IN
  IF Bad(d) THEN d
  ELSE LET es == Elems(d, FALSE) IN
       IF es[1] # "ints" THEN es
       ELSE LET rs == [i \in 1..Len(es[2]) |-> Eval(n.condition, Bind(rho, n.variable, es[2][i]), strict)]
                bads == {rs[i] : i \in {j \in 1..Len(rs) : Bad(rs[j])}}
                nonbool == \E i \in 1..Len(rs) : IsVal(rs[i]) /\ rs[i][1] # "b"
            IN IF nonbool THEN U
               ELSE IF n.quantifier = "forall" THEN
                      (IF strict /\ bads # {} THEN Worst(bads)
                       ELSE IF \E i \in 1..Len(rs) : rs[i] = B(FALSE) THEN B(FALSE)
                       ELSE IF bads # {} THEN Worst(bads) ELSE B(TRUE))
               ELSE   (IF strict /\ bads # {} THEN Worst(bads)
                       ELSE IF \E i \in 1..Len(rs) : rs[i] = B(TRUE) THEN B(TRUE)
                       ELSE IF bads # {} THEN Worst(bads) ELSE B(FALSE))

Eval(n, rho, strict) ==
  CASE n.cls = "HplLiteral" -> (IF n.value[1] \in {"b", "s"} THEN n.value
                                ELSE IF n.value[1] = "n" THEN Q(n.value[2], n.value[3]) ELSE O)
    [] n.cls = "HplThisMessage" -> rho.this
    [] n.cls = "HplVarReference" -> (IF n.name \in DOMAIN rho.vars THEN rho.vars[n.name] ELSE U)
    [] n.cls = "HplFieldAccess" ->
         (LET m == Eval(n.message, rho, strict) IN
          IF Bad(m) THEN m ELSE IF m[1] # "msg" THEN U
          ELSE IF n.field \in DOMAIN m[2] THEN m[2][n.field] ELSE U)
    [] n.cls = "HplArrayAccess" ->
         (LET a == Eval(n.array, rho, strict) i == Eval(n.index, rho, strict) IN
          IF Bad(a) THEN a ELSE IF Bad(i) THEN i
          ELSE IF a[1] # "arr" \/ ~IsInt(i) THEN U
          ELSE IF i[2] >= 0 /\ i[2] < Len(a[2]) THEN a[2][i[2] + 1] ELSE U)
    [] n.cls = "HplSet" ->
         (LET vs == EvalSeq(n.values, rho, strict)
              bads == {vs[i] : i \in {j \in 1..Len(vs) : Bad(vs[j])}}
          IN IF bads # {} THEN Worst(bads) ELSE <<"set", {vs[i] : i \in 1..Len(vs)}, Len(vs)>>)
    [] n.cls = "HplRange" ->
         (LET lo == Eval(n.min_value, rho, strict) hi == Eval(n.max_value, rho, strict) IN
          IF Bad(lo) THEN lo ELSE IF Bad(hi) THEN hi
          ELSE IF ~IsNum(lo) \/ ~IsNum(hi) THEN U
          ELSE <<"rng", lo, hi, n.exclude_min, n.exclude_max>>)
    [] n.cls = "HplQuantifier" -> EvalQuant(n, rho, strict)
    [] n.cls = "HplUnaryOperator" ->
         (LET a == Eval(n.operand, rho, strict) IN
          IF n.operator = "not" THEN KNot(a)
          ELSE IF Bad(a) THEN a ELSE IF IsNum(a) THEN QNeg(a) ELSE U)
    [] n.cls = "HplBinaryOperator" ->
         (LET a == Eval(n.operand1, rho, strict) b == Eval(n.operand2, rho, strict) IN
          IF n.operator = "and" THEN KAnd(a, b, strict)
          ELSE IF n.operator = "or" THEN KOr(a, b, strict)
          ELSE IF n.operator = "implies" THEN KOr(KNot(a), b, strict)
          ELSE IF n.operator = "iff" THEN
               (IF Bad(a) \/ Bad(b) THEN Worst({v \in {a, b} : Bad(v)})
                ELSE IF a[1] = "b" /\ b[1] = "b" THEN B(a[2] = b[2]) ELSE U)
          ELSE IF Bad(a) \/ Bad(b) THEN Worst({v \in {a, b} : Bad(v)})
          ELSE ApplyBin(n.operator, a, b))
    [] n.cls = "HplFunctionCall" -> ApplyFun(n.function, EvalSeq(n.arguments, rho, strict))
    [] n.cls = "HplPredicateExpression" -> Eval(n.expression, rho, strict)
    [] n.cls = "HplVacuousTruth" -> B(TRUE)
    [] n.cls = "HplContradiction" -> B(FALSE)
    [] OTHER -> U

(***************************************************************************)
(* Equivalence obligation of a rewrite on one valuation:                    *)
(*   "ok"     input defined, output defined (leniently) and equal           *)
(*   "skipU"  input undefined: no obligation      "skipO"/"skipR": not judged*)
(*   "undef"  output undefined where the input is defined                   *)
(*   "differ" both defined, values differ                                   *)
(***************************************************************************)
Judge(vi, vo) ==
  IF vi[1] = "U" THEN "skipU" ELSE IF vi[1] = "O" THEN "skipO" ELSE IF vi[1] = "R" THEN "skipR"
  ELSE IF vo[1] = "O" THEN "skipO" ELSE IF vo[1] = "R" THEN "skipR"
  ELSE IF vo[1] = "U" THEN "undef"
  ELSE IF ValEq(vi, vo) THEN "ok" ELSE "differ"

Equiv1(in, out, rho) == Judge(Eval(in, rho, TRUE), Eval(out, rho, FALSE))
=============================================================================
