-------------------------------- MODULE MC_Types --------------------------------
(* Model-checking instance for the lattice laws: every pair (Triples = FALSE) or   *)
(* every triple (Triples = TRUE) of the 128 type sets is an initial state.          *)
EXTENDS HplTypes
CONSTANT Triples
VARIABLES s, t, u
vars == <<s, t, u>>
Init == /\ s \in TypeSet /\ t \in TypeSet
        /\ u \in (IF Triples THEN TypeSet ELSE {{}, T_BOOL, T_PRIMITIVE, T_ANY})
Next == UNCHANGED vars
Spec == Init /\ [][Next]_vars

Idempotent  == LawIdempotent(s)
Commut      == LawCommutative(s, t)
Assoc       == LawAssociative(s, t, u)
Monotone    == LawMonotone(s, t, u)
CanBeLaw    == LawCanBe(s, t)
GLB         == LawGLB(s, t, u)
LUB         == LawLUB(s, t, u)
Narrows     == LawNarrows(s, t)
=============================================================================
