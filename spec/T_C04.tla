--------------------------------- MODULE T_C04 ---------------------------------
(* C04: a predicate that is well-typed under a message schema is accepted; the type  *)
(* set inferred for every reference contains the schema type of the field it names;   *)
(* and checking the enclosing property against the schema succeeds.                    *)
(* event: [id, out (parser), prop (projected, when accepted), schema, check (outcome   *)
(*         of type_check_references), check2 (outcome of the same check on the same    *)
(*         object after it was checked against another schema in between)]              *)
EXTENDS TraceBatch, HplTyping
VARIABLES l
vars == <<l>>
Verdict(e) ==
  IF e.out # "ast" THEN {"WellTypedAccepted:" \o e.out}
  ELSE LET fs == PropertyFaults(e.prop, e.schema) IN
       (IF "TypeMismatch" \in fs THEN {"InferredTypeContainsSchemaType"} ELSE {})
       \cup (IF fs \ {"TypeMismatch"} # {} THEN {"GEN:NotWellTypedUnderSchema:" \o (CHOOSE f \in fs \ {"TypeMismatch"} : TRUE)} ELSE {})
       \cup (IF e.check = "ok" THEN {} ELSE {"SchemaCheckSucceeds:" \o e.check})
       \cup (IF e.check2 = "ok" THEN {} ELSE {"SchemaCheckSucceedsWhateverWasCheckedBefore:" \o e.check2})
       \cup {"WT." \o c : c \in WT(e.prop)}
Init == l = 1
Step == l <= NEvents /\ ReportAll(Events[l].id, Verdict(Events[l])) /\ l' = l + 1
Finish == l = NEvents + 1 /\ Done(NEvents) /\ l' = l + 1
Next == Step \/ Finish
Spec == Init /\ [][Next]_vars
=============================================================================
