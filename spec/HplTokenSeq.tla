------------------------------- MODULE HplTokenSeq -------------------------------
(* The token-sequence machine: every sequence of at most MaxLen tokens over the     *)
(* terminal alphabet of tokens.lark (used for C07: arbitrary sequences of HPL       *)
(* tokens, well-formed or not).                                                      *)
EXTENDS Naturals, Sequences, TLC, Json
CONSTANTS MaxLen, Alphabet
VARIABLE seq
Init == seq = <<>>
Next == Len(seq) < MaxLen /\ \E t \in Alphabet : seq' = Append(seq, t)
Spec == Init /\ [][Next]_seq
Emit == Len(seq) > 0 => PrintT(<<"S", ToJson(seq)>>)
=============================================================================
