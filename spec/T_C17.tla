--------------------------------- MODULE T_C17 ---------------------------------
(* C17: exact schema checking.  Event kinds:                                          *)
(*  "check"  [prop, schema, out]                 property-level type_check_references   *)
(*  "helper" [tok, names, contains, typeof, leaf] MessageType navigation helpers        *)
(*  "int"    [name, width, signed, min, max (hex)] predefined integer tokens            *)
(*  "ctor"   [what, args.., raised]               token constructors                    *)
EXTENDS TraceBatch, HplTyping
VARIABLES l, nok, nfault
vars == <<l, nok, nfault>>

ErrorClasses == {"TypeError", "IndexError", "HplSanityError", "KeyError"}

CheckVerdict(e) ==
  LET fs == PropertyFaults(e.prop, e.schema) IN
  IF fs = {} THEN (IF e.out = "ok" THEN {} ELSE {"ValidReferencesAccepted:" \o e.out})
  ELSE IF e.out = "ok" THEN {"FaultDetected:" \o (CHOOSE f \in fs : TRUE)}
  ELSE IF e.out \notin ErrorClasses THEN {"DocumentedErrorClass:" \o e.out}
  ELSE {}

HelperVerdict(e) ==
  (IF \A i \in 1..Len(e.names) : e.contains[i] = ContainsName(e.tok, e.names[i]) THEN {} ELSE {"ContainsName"})
  \cup (IF \A i \in 1..Len(e.names) :
            ContainsName(e.tok, e.names[i]) => e.typeof[i] = <<"ok", TypeOfName(e.tok, e.names[i]).name>>
        THEN {} ELSE {"GetTypeOf"})
  \cup (IF e.leaf[1] = "ok" /\ ToSet(e.leaf[2]) = LeafFields(e.tok, "") THEN {} ELSE {"LeafFields"})

IntVerdict(e) ==
  IF e.signed
  THEN (IF e.max = IntMax(e.width) /\ e.min = "-" \o IntMinAbs(e.width) THEN {} ELSE {"TwosComplementBounds"})
  ELSE (IF e.max = UIntMax(e.width) /\ e.min = "0" THEN {} ELSE {"TwosComplementBounds"})

CtorVerdict(e) == IF e.raised = e.mustraise THEN {} ELSE {"ConstructorRejectsIllFormed:" \o e.what}

Verdict(e) ==
  IF e.kind = "check" THEN CheckVerdict(e)
  ELSE IF e.kind = "helper" THEN HelperVerdict(e)
  ELSE IF e.kind = "int" THEN IntVerdict(e)
  ELSE IF e.kind = "ctor" THEN CtorVerdict(e)
  ELSE {"UnknownKind"}

Init == l = 1 /\ nok = 0 /\ nfault = 0
Step == /\ l <= NEvents
        /\ LET e == Events[l] IN
             /\ ReportAll(e.id, Verdict(e))
             /\ nok' = nok + (IF e.kind = "check" /\ PropertyFaults(e.prop, e.schema) = {} THEN 1 ELSE 0)
             /\ nfault' = nfault + (IF e.kind = "check" /\ PropertyFaults(e.prop, e.schema) # {} THEN 1 ELSE 0)
        /\ l' = l + 1
Finish == l = NEvents + 1 /\ Stat("must_succeed", nok) /\ Stat("must_fail", nfault) /\ Done(NEvents) /\ l' = l + 1 /\ UNCHANGED <<nok, nfault>>
Next == Step \/ Finish
Spec == Init /\ [][Next]_vars
=============================================================================
