--------------------------------- MODULE T_C02 ---------------------------------
(* C02: a property is accepted iff the binding-order rule HplScoping!Accept holds, *)
(* however the property object comes into being.                                    *)
(* event: [id, expected (the shape, as the stripped tree the grammar assigns),      *)
(*         outs: sequence of <<way, outcome>> with way in parsed / api / copied]     *)
EXTENDS TraceBatch, HplScoping
VARIABLES l, nacc, nrej, nunspec
vars == <<l, nacc, nrej, nunspec>>

Verdict(e) ==
  IF Unspecified(e.expected) THEN {}
  ELSE LET acc == Accept(e.expected) IN
       UNION {LET way == e.outs[i][1] out == e.outs[i][2] IN
              IF acc THEN (IF out = "ast" THEN {} ELSE {"MustAccept(" \o way \o "):" \o out})
              ELSE (IF out = "ast" THEN {"MustReject(" \o way \o ")"}
                    ELSE IF out = "HplSanityError" THEN {}
                    ELSE {"RejectWithSanityError(" \o way \o "):" \o out})
              : i \in 1..Len(e.outs)}

Init == l = 1 /\ nacc = 0 /\ nrej = 0 /\ nunspec = 0
Step == /\ l <= NEvents
        /\ LET e == Events[l] IN
             /\ ReportAll(e.id, Verdict(e))
             /\ nunspec' = nunspec + (IF Unspecified(e.expected) THEN 1 ELSE 0)
             /\ nacc' = nacc + (IF ~Unspecified(e.expected) /\ Accept(e.expected) THEN 1 ELSE 0)
             /\ nrej' = nrej + (IF ~Unspecified(e.expected) /\ ~Accept(e.expected) THEN 1 ELSE 0)
        /\ l' = l + 1
Finish == /\ l = NEvents + 1
          /\ Stat("must_accept", nacc) /\ Stat("must_reject", nrej) /\ Stat("unspecified", nunspec)
          /\ Done(NEvents) /\ l' = l + 1 /\ UNCHANGED <<nacc, nrej, nunspec>>
Next == Step \/ Finish
Spec == Init /\ [][Next]_vars
=============================================================================
