--------------------------------- MODULE T_C05 ---------------------------------
(* C05: a text with one injected definite type clash must be rejected with a        *)
(* TypeError by every predicate-level entry point.  The trace spec re-derives, from   *)
(* the signature tables alone (HplStatic), that the generated tree IS a definite      *)
(* clash; if it is not, the event is a generator bug (GEN), not a violation.          *)
EXTENDS TraceBatch, HplStatic
VARIABLES l
vars == <<l>>
Verdict(e) ==
  IF ~DefiniteClash(e.expected) THEN {"GEN:NotADefiniteClash"}
  ELSE UNION {IF e.outs[i][2] = "TypeError" THEN {}
              ELSE IF e.outs[i][2] = "ast" THEN {"DefiniteClashRejected(" \o e.outs[i][1] \o ")"}
              ELSE {"RejectedWithTypeError(" \o e.outs[i][1] \o "):" \o e.outs[i][2]}
              : i \in 1..Len(e.outs)}
Init == l = 1
Step == l <= NEvents /\ ReportAll(Events[l].id, Verdict(Events[l])) /\ l' = l + 1
Finish == l = NEvents + 1 /\ Done(NEvents) /\ l' = l + 1
Next == Step \/ Finish
Spec == Init /\ [][Next]_vars
=============================================================================
