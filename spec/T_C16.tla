--------------------------------- MODULE T_C16 ---------------------------------
(* Validating configuration of the session machine for C16: the recorded trace of    *)
(* each schedule carries, after every call, the deep snapshot (structure, stored      *)
(* types, metadata, object ids, hashes) of EVERY handle allocated so far.             *)
(*   Immutable: the snapshot of every earlier handle is unchanged across every step   *)
(*   But:       post-conditions of copy-with-changes                                  *)
EXTENDS TraceBatch, HplAst
VARIABLES l, tid, heap
vars == <<l, tid, heap>>

\* heap: function handle-name -> snapshot ; logged as a sequence of <<handle, snapshot>>
AsFun(pairs) == [h \in {pairs[i][1] : i \in 1..Len(pairs)} |->
                   (CHOOSE i \in 1..Len(pairs) : pairs[i][1] = h)]
Snap(pairs, h) == pairs[CHOOSE i \in 1..Len(pairs) : pairs[i][1] = h][2]
Handles(pairs) == {pairs[i][1] : i \in 1..Len(pairs)}

ButVerdict(e) ==
  IF e.but[1] = "na" THEN {}
  ELSE IF e.but[1] = "unchanged" THEN (IF e.but[2] THEN {} ELSE {"But.SameObjectWhenNothingChanges"})
  ELSE \* <<"changed", result, fresh, target, eq_after_meta, hash_after_meta>>
       LET r == e.but[2] f == e.but[3] t == e.but[4] IN
       (IF Val(r) = Val(f) THEN {} ELSE {"But.EqualsFreshConstruction"})
       \cup (IF r.ohash = f.ohash THEN {} ELSE {"But.HashOfFreshConstruction"})
       \cup (IF r.metadata = t.metadata THEN {} ELSE {"But.MetadataCopied"})
       \cup (IF r.mid # t.mid THEN {} ELSE {"But.MetadataNotShared"})
       \cup (IF r.oid # t.oid THEN {} ELSE {"But.NewObject"})
       \cup (IF e.but[5] THEN {} ELSE {"But.EqualityIgnoresMetadata"})
       \cup (IF e.but[6] THEN {} ELSE {"But.HashIgnoresMetadata"})

Verdict(e) ==
  (IF e.step = 0 THEN {}
   ELSE UNION {IF h \in Handles(e.heap) /\ Snap(e.heap, h) = heap[h] THEN {} ELSE {"Immutable(" \o h \o ")after:" \o e.op}
               : h \in DOMAIN heap})
  \cup ButVerdict(e)

Init == l = 1 /\ tid = 0 /\ heap = [h \in {} |-> 0]
Step == /\ l <= NEvents
        /\ LET e == Events[l] IN
             /\ (e.step = 0 \/ e.tid = tid) \* a new schedule starts with step 0
             /\ ReportAll(e.id, IF e.step = 0 THEN ButVerdict(e) ELSE Verdict(e))
             /\ tid' = e.tid
             /\ heap' = [h \in Handles(e.heap) |-> Snap(e.heap, h)]
        /\ l' = l + 1
Finish == l = NEvents + 1 /\ Done(NEvents) /\ l' = l + 1 /\ UNCHANGED <<tid, heap>>
Next == Step \/ Finish
Spec == Init /\ [][Next]_vars
=============================================================================
