------------------------------- MODULE TraceBatch -------------------------------
(* Common plumbing of all trace specifications: the recorded implementation events  *)
(* of one shard are read from the JSON file named by the environment variable       *)
(* TRACE_FILE; verdicts are printed as tuples (see harness/tlc.py).                  *)
EXTENDS Naturals, Sequences, FiniteSets, TLC, Json, IOUtils

Events == JsonDeserialize(IOEnv.TRACE_FILE)
NEvents == Len(Events)

ToSet(seq) == {seq[i] : i \in 1..Len(seq)}

Bad(id, clause)  == PrintT(<<"BAD", id, clause>>)
Skipped(id, cls) == PrintT(<<"SKIP", id, cls>>)
Stat(name, n)    == PrintT(<<"STAT", name, n>>)
Done(n)          == PrintT(<<"DONE", n>>)

\* report every failing clause of a set; always TRUE
ReportAll(id, clauses) == \A c \in clauses : Bad(id, c)
=============================================================================
