-------------------------------- MODULE HplTypes --------------------------------
(***************************************************************************)
(* The type-set lattice of HPL (anchors: src/hpl/types.py, the operator    *)
(* and function tables in src/hpl/ast/expressions.py).                      *)
(* A "data type" of an AST node is a SET of base types the node may still  *)
(* have; narrowing (cast) is intersection and fails on the empty set.      *)
(***************************************************************************)
EXTENDS Naturals, Sequences, FiniteSets

Base      == {"BOOL", "NUMBER", "STRING", "ARRAY", "RANGE", "SET", "MESSAGE"}
TypeSet   == SUBSET Base

T_BOOL      == {"BOOL"}
T_NUMBER    == {"NUMBER"}
T_STRING    == {"STRING"}
T_ARRAY     == {"ARRAY"}
T_RANGE     == {"RANGE"}
T_SET       == {"SET"}
T_MESSAGE   == {"MESSAGE"}
T_NONE      == {}
T_PRIMITIVE == {"BOOL", "NUMBER", "STRING"}
T_ITEM      == T_PRIMITIVE \cup {"MESSAGE"}
T_COMPOUND  == {"ARRAY", "RANGE", "SET"}
T_ANY       == Base

CastOK(s, t) == s \cap t # {}
Cast(s, t)   == s \cap t          \* meaningful only when CastOK(s, t)
CanBe(s, t)  == s \cap t # {}
Union(S)     == UNION S

(***************************************************************************)
(* Signature tables (the DECLARED interface of every operator/function).   *)
(***************************************************************************)
UnOps  == {"not", "-"}
UnSig(op) == IF op = "not" THEN [p |-> T_BOOL, r |-> T_BOOL]
                           ELSE [p |-> T_NUMBER, r |-> T_NUMBER]

ArithOps == {"+", "-", "*", "/", "**"}
LogicOps == {"and", "or", "implies", "iff"}
EqOps    == {"=", "!="}
OrdOps   == {"<", "<=", ">", ">="}
BinOps   == ArithOps \cup LogicOps \cup EqOps \cup OrdOps \cup {"in"}

BinSig(op) ==
  IF op \in ArithOps THEN [p1 |-> T_NUMBER, p2 |-> T_NUMBER, r |-> T_NUMBER]
  ELSE IF op \in LogicOps THEN [p1 |-> T_BOOL, p2 |-> T_BOOL, r |-> T_BOOL]
  ELSE IF op \in EqOps THEN [p1 |-> T_PRIMITIVE, p2 |-> T_PRIMITIVE, r |-> T_BOOL]
  ELSE IF op \in OrdOps THEN [p1 |-> T_NUMBER, p2 |-> T_NUMBER, r |-> T_BOOL]
  ELSE [p1 |-> T_PRIMITIVE, p2 |-> T_COMPOUND, r |-> T_BOOL]   \* "in"

\* true algebra (NOT the implementation's flags)
Commutative == {"+", "*", "and", "or", "iff", "=", "!="}
Associative == {"+", "*", "and", "or", "iff"}

\* Function overloads: ps = fixed parameter types, var = type of variadic tail ({} = none)
Sig1(p, r)    == [ps |-> <<p>>, var |-> {}, r |-> r]
Sig2(p, q, r) == [ps |-> <<p, q>>, var |-> {}, r |-> r]
SigC          == [ps |-> <<T_COMPOUND>>, var |-> {}, r |-> T_NUMBER]
SigNN         == [ps |-> <<T_NUMBER, T_NUMBER>>, var |-> T_NUMBER, r |-> T_NUMBER]
SigM          == [ps |-> <<T_MESSAGE>>, var |-> {}, r |-> T_NUMBER]
SigQ          == [ps |-> <<T_NUMBER, T_NUMBER, T_NUMBER, T_NUMBER>>, var |-> {}, r |-> T_NUMBER]

NumFuns  == {"abs", "sqrt", "ceil", "floor", "sin", "cos", "tan", "asin", "acos", "atan", "deg", "rad"}
ConvFuns == {"bool", "int", "float", "str"}
AggFuns  == {"len", "sum", "prod"}
MultiFuns == {"max", "min", "gcd"}
QuatFuns == {"roll", "pitch", "yaw"}
Funs == NumFuns \cup ConvFuns \cup AggFuns \cup MultiFuns \cup QuatFuns \cup {"log", "atan2"}

FunSig(f) ==
  IF f \in NumFuns THEN {Sig1(T_NUMBER, T_NUMBER)}
  ELSE IF f = "bool" THEN {Sig1(T_PRIMITIVE, T_BOOL)}
  ELSE IF f \in {"int", "float"} THEN {Sig1(T_PRIMITIVE, T_NUMBER)}
  ELSE IF f = "str" THEN {Sig1(T_PRIMITIVE, T_STRING)}
  ELSE IF f \in AggFuns THEN {SigC}
  ELSE IF f \in {"log", "atan2"} THEN {Sig2(T_NUMBER, T_NUMBER, T_NUMBER)}
  ELSE IF f \in MultiFuns THEN {SigC, SigNN}
  ELSE {SigM, SigQ}

FunResult(f) == UNION {s.r : s \in FunSig(f)}

\* does overload s accept argument type sets ts (a sequence of TypeSets)?
SigAccepts(s, ts) ==
  /\ Len(s.ps) <= Len(ts)
  /\ (Len(s.ps) < Len(ts) => s.var # {})
  /\ \A i \in 1..Len(s.ps) : CanBe(ts[i], s.ps[i])
  /\ \A i \in (Len(s.ps)+1)..Len(ts) : CanBe(ts[i], s.var)

\* the type an argument may have at position i in SOME accepting overload
ParamUnion(f, ts, i) ==
  UNION {IF i <= Len(s.ps) THEN s.ps[i] ELSE s.var : s \in {x \in FunSig(f) : SigAccepts(x, ts)}}

(***************************************************************************)
(* Lattice laws (C20): checked as invariants by MC_Types over all pairs /  *)
(* triples of type sets.                                                    *)
(***************************************************************************)
LawIdempotent(s)     == s # {} => (CastOK(s, s) /\ Cast(s, s) = s)
LawCommutative(s, t) == (CastOK(s, t) <=> CastOK(t, s)) /\ Cast(s, t) = Cast(t, s)
LawAssociative(s, t, u) ==
  /\ ((CastOK(s, t) /\ CastOK(Cast(s, t), u)) <=> (CastOK(t, u) /\ CastOK(s, Cast(t, u))))
  /\ Cast(Cast(s, t), u) = Cast(s, Cast(t, u))
LawMonotone(s, t, u) == (s \subseteq t) => (Cast(s, u) \subseteq Cast(t, u))
LawCanBe(s, t)       == CanBe(s, t) <=> CastOK(s, t)
LawGLB(s, t, u)      == (u \subseteq s /\ u \subseteq t) <=> (u \subseteq Cast(s, t))
LawLUB(s, t, u)      == (s \subseteq u /\ t \subseteq u) <=> (Union({s, t}) \subseteq u)
LawNarrows(s, t)     == Cast(s, t) \subseteq s /\ Cast(s, t) \subseteq t
=============================================================================
