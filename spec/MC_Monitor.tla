--------------------------------- MODULE MC_Monitor ---------------------------------
(* C12: on every reachable trace of the bus, a property is satisfied iff every        *)
(* property of its canonical form is.  Props is a constant COMPUTED FROM THE            *)
(* IMPLEMENTATION: for every shape the driver calls the real canonical_form and          *)
(* writes the projected pair (orig, parts) to the file named by PROPS_FILE.              *)
EXTENDS HplMonitor, HplProps, Json, IOUtils

Props == JsonDeserialize(IOEnv.PROPS_FILE)

\* the implementation's decomposition preserves trace semantics
EquivImpl == \A k \in 1..Len(Props) : Sat(Props[k].orig, tr) = SatAll(Props[k].parts, tr)
\* so does the specification's own CanonicalForm
EquivSpec == \A k \in 1..Len(Props) : Sat(Props[k].orig, tr) = SatAll(CanonicalForm(Props[k].orig), tr)
\* non-vacuity probes: some trace satisfies / violates each original property
NeverSat(k) == ~Sat(Props[k].orig, tr)
NeverViolated(k) == Sat(Props[k].orig, tr)
=============================================================================
