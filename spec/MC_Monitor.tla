--------------------------------- MODULE MC_Monitor ---------------------------------
(* C12: on every reachable trace of the bus, a property is satisfied iff every        *)
(* property of its canonical form is.  Props is a constant COMPUTED FROM THE            *)
(* IMPLEMENTATION: for every shape the driver calls the real canonical_form and          *)
(* writes the projected pair (orig, parts) to the file named by PROPS_FILE.              *)
EXTENDS HplMonitor, HplProps, HplScoping, Json, IOUtils

Props == JsonDeserialize(IOEnv.PROPS_FILE)

\* the implementation's decomposition preserves trace semantics
EquivImpl == \A k \in 1..Len(Props) : Sat(Props[k].orig, tr) = SatAll(Props[k].parts, tr)
\* so does the specification's own CanonicalForm
EquivSpec == \A k \in 1..Len(Props) : Sat(Props[k].orig, tr) = SatAll(CanonicalForm(Props[k].orig), tr)
\* C02 <-> L3: a property that the binding-order rule accepts is never evaluated with an unbound alias - unless an alias that
\* only SOME alternatives of a disjunction bind is referred to later (the shape of known finding F16, which the rule lets through)
PartialAlias(p) ==
  \E e \in {x \in Nodes(p) : x.cls = "HplEventDisjunction"} :
     LET ss == SimpleEvents(e) IN
     \E i \in 1..Len(ss) : \E j \in 1..Len(ss) : ss[i].alias[1] = "some" /\ ss[j].alias # ss[i].alias
BindingSufficient == \A k \in 1..Len(Props) :
   (Accept(Props[k].orig) /\ ~PartialAlias(Props[k].orig)) => ~UnboundEval(Props[k].orig, tr)
\* ... and the rule is not stronger than needed on these shapes: a property it rejects for an unbound / late reference IS
\* evaluated with an unbound alias on some trace (checked as a must-fail instance)
RejectedNeverMiss == \A k \in 1..Len(Props) : ~RefsBound(Props[k].orig) => ~UnboundEval(Props[k].orig, tr)
\* non-vacuity probes: some trace satisfies / violates each original property
NeverSat(k) == ~Sat(Props[k].orig, tr)
NeverViolated(k) == Sat(Props[k].orig, tr)
=============================================================================
