--------------------------------- MODULE HplAst ---------------------------------
(***************************************************************************)
(* Abstract syntax of HPL as TLA+ values (anchors: src/hpl/ast/*.py).      *)
(* A node is a record tagged with the implementation's class name (field   *)
(* "cls"); the other fields carry the implementation's field names (see     *)
(* harness/project.py).  Optional children are the record [cls |-> "None"]. *)
(*                                                                         *)
(* This module defines, as constant-level operators:                       *)
(*   Kids / PreOrder / Nodes       child slots and traversal order          *)
(*   ExtRefs / ContainsRef / ...   the reference queries (C15)              *)
(*   Strip                         structure-only view of a node           *)
(*   ReplaceThis / ReplaceVar      substitution (C13)                       *)
(*   WT                            well-typedness, clause by clause (C03)   *)
(***************************************************************************)
EXTENDS HplTypes, TLC

NoneNode == [cls |-> "None"]
IsNone(n) == n.cls = "None"

ExprClasses == {"HplLiteral", "HplThisMessage", "HplVarReference", "HplSet", "HplRange",
                "HplQuantifier", "HplUnaryOperator", "HplBinaryOperator", "HplFunctionCall",
                "HplFieldAccess", "HplArrayAccess"}
PredClasses  == {"HplPredicateExpression", "HplVacuousTruth", "HplContradiction"}
EventClasses == {"HplSimpleEvent", "HplEventDisjunction"}
IsExpr(n) == n.cls \in ExprClasses
IsAccessor(n) == n.cls \in {"HplFieldAccess", "HplArrayAccess"}
IsRef(n) == IsAccessor(n) \/ n.cls = "HplVarReference"

SeqToSet(q) == {q[i] : i \in 1..Len(q)}
DT(n) == SeqToSet(n.dt)

Opt(n) == IF IsNone(n) THEN <<>> ELSE <<n>>

(***************************************************************************)
(* Child slots, in the order the documentation promises for iterate():     *)
(* field order of the class (the two events of a pattern: trigger first).  *)
(***************************************************************************)
Kids(n) ==
  CASE n.cls = "HplSet"                 -> n.values
    [] n.cls = "HplRange"               -> <<n.min_value, n.max_value>>
    [] n.cls = "HplQuantifier"          -> <<n.domain, n.condition>>
    [] n.cls = "HplUnaryOperator"       -> <<n.operand>>
    [] n.cls = "HplBinaryOperator"      -> <<n.operand1, n.operand2>>
    [] n.cls = "HplFunctionCall"        -> n.arguments
    [] n.cls = "HplFieldAccess"         -> <<n.message>>
    [] n.cls = "HplArrayAccess"         -> <<n.array, n.index>>
    [] n.cls = "HplPredicateExpression" -> <<n.expression>>
    [] n.cls = "HplSimpleEvent"         -> <<n.predicate>>
    [] n.cls = "HplEventDisjunction"    -> <<n.event1, n.event2>>
    [] n.cls = "HplScope"               -> Opt(n.activator) \o Opt(n.terminator)
    [] n.cls = "HplPattern"             -> Opt(n.trigger) \o <<n.behaviour>>
    [] n.cls = "HplProperty"            -> <<n.scope, n.pattern>>
    [] n.cls = "HplSpecification"       -> n.properties
    [] OTHER                            -> <<>>

RECURSIVE PreOrder(_), PreOrderSeq(_)
PreOrder(n) == <<n>> \o PreOrderSeq(Kids(n))
PreOrderSeq(q) == IF q = <<>> THEN <<>> ELSE PreOrder(Head(q)) \o PreOrderSeq(Tail(q))

Nodes(n) == SeqToSet(PreOrder(n))

(***************************************************************************)
(* Reference queries                                                        *)
(***************************************************************************)
AliasSet(e) == IF e.cls = "HplSimpleEvent" /\ e.alias[1] = "some" THEN {e.alias[2]} ELSE {}

RECURSIVE ExtRefs(_)
ExtRefs(n) ==
  CASE n.cls = "HplVarReference" -> {n.name}
    [] n.cls = "HplQuantifier"   -> (ExtRefs(n.domain) \cup ExtRefs(n.condition)) \ {n.variable}
    [] n.cls = "HplSimpleEvent"  -> ExtRefs(n.predicate) \ AliasSet(n)
    [] OTHER -> UNION {ExtRefs(Kids(n)[i]) : i \in 1..Len(Kids(n))}

ContainsRef(n, a)  == \E x \in Nodes(n) : x.cls = "HplVarReference" /\ x.name = a
ContainsSelf(n)    == \E x \in Nodes(n) : x.cls = "HplThisMessage"
ContainsDef(n, a)  == \E x \in Nodes(n) : x.cls = "HplQuantifier" /\ x.variable = a
AllVarNames(n)     == {x.name : x \in {y \in Nodes(n) : y.cls = "HplVarReference"}}

RECURSIVE SimpleEvents(_)
SimpleEvents(e) ==
  IF e.cls = "HplEventDisjunction" THEN SimpleEvents(e.event1) \o SimpleEvents(e.event2)
  ELSE <<e>>

RECURSIVE Aliases(_)
Aliases(e) ==
  IF e.cls = "HplEventDisjunction" THEN Aliases(e.event1) \o Aliases(e.event2)
  ELSE IF e.alias[1] = "some" THEN <<e.alias[2]>> ELSE <<>>

\* own-field check of a predicate: some field access sits directly on the current message
OwnFieldPresent(p) ==
  \E x \in Nodes(p) : x.cls = "HplFieldAccess" /\ x.message.cls = "HplThisMessage"

(***************************************************************************)
(* Structure-only view (drops types, ids, hashes, metadata, spellings)      *)
(***************************************************************************)
RECURSIVE Strip(_), StripSeq(_)
StripSeq(q) == [i \in 1..Len(q) |-> Strip(q[i])]
Strip(n) ==
  CASE n.cls = "HplLiteral"        -> [cls |-> n.cls, token |-> n.token, value |-> n.value]
    [] n.cls = "HplThisMessage"    -> [cls |-> n.cls]
    [] n.cls = "HplVarReference"   -> [cls |-> n.cls, name |-> n.name]
    [] n.cls = "HplSet"            -> [cls |-> n.cls, values |-> StripSeq(n.values)]
    [] n.cls = "HplRange"          -> [cls |-> n.cls, min_value |-> Strip(n.min_value), max_value |-> Strip(n.max_value),
                                       exclude_min |-> n.exclude_min, exclude_max |-> n.exclude_max]
    [] n.cls = "HplQuantifier"     -> [cls |-> n.cls, quantifier |-> n.quantifier, variable |-> n.variable,
                                       domain |-> Strip(n.domain), condition |-> Strip(n.condition)]
    [] n.cls = "HplUnaryOperator"  -> [cls |-> n.cls, operator |-> n.operator, operand |-> Strip(n.operand)]
    [] n.cls = "HplBinaryOperator" -> [cls |-> n.cls, operator |-> n.operator,
                                       operand1 |-> Strip(n.operand1), operand2 |-> Strip(n.operand2)]
    [] n.cls = "HplFunctionCall"   -> [cls |-> n.cls, function |-> n.function, arguments |-> StripSeq(n.arguments)]
    [] n.cls = "HplFieldAccess"    -> [cls |-> n.cls, message |-> Strip(n.message), field |-> n.field]
    [] n.cls = "HplArrayAccess"    -> [cls |-> n.cls, array |-> Strip(n.array), index |-> Strip(n.index)]
    [] n.cls = "HplPredicateExpression" -> [cls |-> n.cls, expression |-> Strip(n.expression)]
    [] n.cls = "HplSimpleEvent"    -> [cls |-> n.cls, name |-> n.name, alias |-> n.alias, predicate |-> Strip(n.predicate)]
    [] n.cls = "HplEventDisjunction" -> [cls |-> n.cls, event1 |-> Strip(n.event1), event2 |-> Strip(n.event2)]
    [] n.cls = "HplScope"          -> [cls |-> n.cls, scope_type |-> n.scope_type,
                                       activator |-> Strip(n.activator), terminator |-> Strip(n.terminator)]
    [] n.cls = "HplPattern"        -> [cls |-> n.cls, pattern_type |-> n.pattern_type, behaviour |-> Strip(n.behaviour),
                                       trigger |-> Strip(n.trigger), min_time |-> n.min_time, max_time |-> n.max_time]
    [] n.cls = "HplProperty"       -> [cls |-> n.cls, scope |-> Strip(n.scope), pattern |-> Strip(n.pattern)]
    [] n.cls = "HplSpecification"  -> [cls |-> n.cls, properties |-> StripSeq(n.properties)]
    [] OTHER                       -> [cls |-> n.cls]

\* Strip that also keeps the type sets (used for "equal value" comparisons of the implementation:
\* attrs equality compares data_type but not metadata)
RECURSIVE Val(_), ValSeq(_)
ValSeq(q) == [i \in 1..Len(q) |-> Val(q[i])]
Val(n) ==
  CASE n.cls = "HplLiteral"        -> [cls |-> n.cls, dt |-> DT(n), token |-> n.token, value |-> n.value]
    [] n.cls = "HplThisMessage"    -> [cls |-> n.cls, dt |-> DT(n)]
    [] n.cls = "HplVarReference"   -> [cls |-> n.cls, dt |-> DT(n), name |-> n.name]
    [] n.cls = "HplSet"            -> [cls |-> n.cls, dt |-> DT(n), values |-> ValSeq(n.values)]
    [] n.cls = "HplRange"          -> [cls |-> n.cls, dt |-> DT(n), min_value |-> Val(n.min_value), max_value |-> Val(n.max_value),
                                       exclude_min |-> n.exclude_min, exclude_max |-> n.exclude_max]
    [] n.cls = "HplQuantifier"     -> [cls |-> n.cls, dt |-> DT(n), quantifier |-> n.quantifier, variable |-> n.variable,
                                       domain |-> Val(n.domain), condition |-> Val(n.condition)]
    [] n.cls = "HplUnaryOperator"  -> [cls |-> n.cls, dt |-> DT(n), operator |-> n.operator, operand |-> Val(n.operand)]
    [] n.cls = "HplBinaryOperator" -> [cls |-> n.cls, dt |-> DT(n), operator |-> n.operator,
                                       operand1 |-> Val(n.operand1), operand2 |-> Val(n.operand2)]
    [] n.cls = "HplFunctionCall"   -> [cls |-> n.cls, dt |-> DT(n), function |-> n.function, arguments |-> ValSeq(n.arguments)]
    [] n.cls = "HplFieldAccess"    -> [cls |-> n.cls, dt |-> DT(n), message |-> Val(n.message), field |-> n.field]
    [] n.cls = "HplArrayAccess"    -> [cls |-> n.cls, dt |-> DT(n), array |-> Val(n.array), index |-> Val(n.index)]
    [] n.cls = "HplPredicateExpression" -> [cls |-> n.cls, expression |-> Val(n.expression)]
    [] n.cls = "HplSimpleEvent"    -> [cls |-> n.cls, name |-> n.name, alias |-> n.alias, predicate |-> Val(n.predicate),
                                       event_type |-> n.event_type, message_type |-> n.message_type]
    [] n.cls = "HplEventDisjunction" -> [cls |-> n.cls, event1 |-> Val(n.event1), event2 |-> Val(n.event2)]
    [] n.cls = "HplScope"          -> [cls |-> n.cls, scope_type |-> n.scope_type,
                                       activator |-> Val(n.activator), terminator |-> Val(n.terminator)]
    [] n.cls = "HplPattern"        -> [cls |-> n.cls, pattern_type |-> n.pattern_type, behaviour |-> Val(n.behaviour),
                                       trigger |-> Val(n.trigger), min_time |-> n.min_time_repr, max_time |-> n.max_time_repr]
    [] n.cls = "HplProperty"       -> [cls |-> n.cls, scope |-> Val(n.scope), pattern |-> Val(n.pattern)]
    [] n.cls = "HplSpecification"  -> [cls |-> n.cls, properties |-> ValSeq(n.properties)]
    [] OTHER                       -> [cls |-> n.cls]

(***************************************************************************)
(* Substitution on stripped trees (capture-agnostic, every slot)            *)
(***************************************************************************)
ThisNode == [cls |-> "HplThisMessage"]
VarNode(a) == [cls |-> "HplVarReference", name |-> a]

RECURSIVE Subst(_, _, _), SubstSeq(_, _, _)
\* replace every node for which Strip(node) = from by `to` (both stripped)
SubstSeq(q, from, to) == [i \in 1..Len(q) |-> Subst(q[i], from, to)]
Subst(n, from, to) ==
  IF n = from THEN to ELSE
  CASE n.cls = "HplSet"            -> [n EXCEPT !.values = SubstSeq(n.values, from, to)]
    [] n.cls = "HplRange"          -> [n EXCEPT !.min_value = Subst(n.min_value, from, to), !.max_value = Subst(n.max_value, from, to)]
    [] n.cls = "HplQuantifier"     -> [n EXCEPT !.domain = Subst(n.domain, from, to), !.condition = Subst(n.condition, from, to)]
    [] n.cls = "HplUnaryOperator"  -> [n EXCEPT !.operand = Subst(n.operand, from, to)]
    [] n.cls = "HplBinaryOperator" -> [n EXCEPT !.operand1 = Subst(n.operand1, from, to), !.operand2 = Subst(n.operand2, from, to)]
    [] n.cls = "HplFunctionCall"   -> [n EXCEPT !.arguments = SubstSeq(n.arguments, from, to)]
    [] n.cls = "HplFieldAccess"    -> [n EXCEPT !.message = Subst(n.message, from, to)]
    [] n.cls = "HplArrayAccess"    -> [n EXCEPT !.array = Subst(n.array, from, to), !.index = Subst(n.index, from, to)]
    [] n.cls = "HplPredicateExpression" -> [n EXCEPT !.expression = Subst(n.expression, from, to)]
    [] OTHER -> n

ReplaceThis(n, a) == Subst(n, ThisNode, VarNode(a))      \* n stripped
ReplaceVar(n, a)  == Subst(n, VarNode(a), ThisNode)

(***************************************************************************)
(* Well-typedness (C03).  WTNode(n) = set of names of violated clauses.    *)
(***************************************************************************)
LiteralType(n) == IF n.value[1] = "b" THEN T_BOOL ELSE IF n.value[1] = "s" THEN T_STRING ELSE T_NUMBER

KindType(n) ==
  CASE n.cls = "HplLiteral"        -> LiteralType(n)
    [] n.cls = "HplThisMessage"    -> T_MESSAGE
    [] n.cls = "HplVarReference"   -> T_ITEM
    [] n.cls = "HplSet"            -> T_SET
    [] n.cls = "HplRange"          -> T_RANGE
    [] n.cls = "HplQuantifier"     -> T_BOOL
    [] n.cls = "HplUnaryOperator"  -> IF n.operator \in UnOps THEN UnSig(n.operator).r ELSE {}
    [] n.cls = "HplBinaryOperator" -> IF n.operator \in BinOps THEN BinSig(n.operator).r ELSE {}
    [] n.cls = "HplFunctionCall"   -> IF n.function \in Funs THEN FunResult(n.function) ELSE {}
    [] OTHER                       -> T_ITEM \cup T_ARRAY      \* accessors

\* result-carrying kinds must carry EXACTLY the declared result
ExactKinds == {"HplLiteral", "HplThisMessage", "HplSet", "HplRange", "HplQuantifier",
               "HplUnaryOperator", "HplBinaryOperator", "HplFunctionCall"}

ElemType(dom) ==
  IF dom.cls = "HplRange" THEN T_NUMBER
  ELSE IF dom.cls = "HplSet" THEN UNION {DT(dom.values[i]) : i \in 1..Len(dom.values)}
  ELSE T_ITEM

ArgTypes(n) == [i \in 1..Len(n.arguments) |-> DT(n.arguments[i])]

Within(c, t, name) == IF DT(c) \subseteq t THEN {} ELSE {name}

WTNode(n) ==
  (IF DT(n) = {} THEN {"NonEmpty"} ELSE {})
  \cup (IF DT(n) \subseteq KindType(n) THEN {} ELSE {"WithinKind"})
  \cup (IF n.cls \in ExactKinds /\ DT(n) # KindType(n) THEN {"ResultType"} ELSE {})
  \cup
  (CASE n.cls = "HplSet" -> UNION {Within(n.values[i], T_PRIMITIVE, "SetElement") : i \in 1..Len(n.values)}
     [] n.cls = "HplRange" -> Within(n.min_value, T_NUMBER, "RangeBound") \cup Within(n.max_value, T_NUMBER, "RangeBound")
     [] n.cls = "HplQuantifier" ->
          Within(n.domain, T_COMPOUND, "QuantDomain")
          \cup (IF DT(n.condition) = T_BOOL THEN {} ELSE {"QuantCondition"})
          \cup (IF \A x \in Nodes(n.condition) :
                     (x.cls = "HplVarReference" /\ x.name = n.variable) => CanBe(DT(x), ElemType(n.domain))
                THEN {} ELSE {"BoundVarAtElemType"})
     [] n.cls = "HplUnaryOperator" ->
          IF n.operator \in UnOps THEN Within(n.operand, UnSig(n.operator).p, "UnaryOperand") ELSE {"KnownOperator"}
     [] n.cls = "HplBinaryOperator" ->
          IF n.operator \in BinOps THEN
               Within(n.operand1, BinSig(n.operator).p1, "BinaryOperand1")
               \cup Within(n.operand2, BinSig(n.operator).p2, "BinaryOperand2")
               \cup (IF n.operator \in EqOps /\ DT(n.operand1) # DT(n.operand2) THEN {"EqSidesEqual"} ELSE {})
          ELSE {"KnownOperator"}
     [] n.cls = "HplFunctionCall" ->
          IF n.function \in Funs THEN
               (IF \E s \in FunSig(n.function) : SigAccepts(s, ArgTypes(n)) THEN {} ELSE {"CallAccepted"})
               \cup UNION {Within(n.arguments[i], ParamUnion(n.function, ArgTypes(n), i), "CallArgument")
                           : i \in 1..Len(n.arguments)}
          ELSE {"KnownFunction"}
     [] n.cls = "HplFieldAccess" -> Within(n.message, T_MESSAGE, "FieldObject")
     [] n.cls = "HplArrayAccess" -> Within(n.array, T_ARRAY, "IndexedArray") \cup Within(n.index, T_NUMBER, "Index")
     [] OTHER -> {})

RECURSIVE InterAll(_)
InterAll(S) == IF S = {} THEN Base ELSE LET s == CHOOSE x \in S : TRUE IN s \cap InterAll(S \ {s})

\* occurrences of references with the quantifier that binds their root variable (<<>> when the root is free):
\* a quantified variable is a different reference in each quantifier that binds that name
RootOf(x) == IF x.cls = "HplFieldAccess" THEN x.message ELSE IF x.cls = "HplArrayAccess" THEN x.array ELSE x
RECURSIVE BaseOf(_)
BaseOf(x) == IF IsAccessor(x) THEN BaseOf(RootOf(x)) ELSE x
RECURSIVE ScopedRefs(_, _)
\* scope: function bound variable name -> stripped binding quantifier
ScopedRefs(n, scope) ==
  (IF IsRef(n)
   THEN LET b == BaseOf(n) IN
        {<<Strip(n), IF b.cls = "HplVarReference" /\ b.name \in DOMAIN scope THEN <<scope[b.name]>> ELSE <<>>, DT(n)>>}
   ELSE {})
  \cup (IF n.cls = "HplQuantifier"
        THEN ScopedRefs(n.domain, scope)
             \cup ScopedRefs(n.condition, [y \in (DOMAIN scope) \cup {n.variable} |-> IF y = n.variable THEN Strip(n) ELSE scope[y]])
        ELSE UNION {ScopedRefs(Kids(n)[i], scope) : i \in 1..Len(Kids(n))})

WTPredicate(p) ==
  IF p.cls = "HplPredicateExpression" THEN
       (IF DT(p.expression) = T_BOOL THEN {} ELSE {"PredicateRootBool"})
       \cup (LET refs == ScopedRefs(p.expression, [y \in {} |-> 0])
                 keys == {<<r[1], r[2]>> : r \in refs}
             IN IF \A k \in keys : InterAll({r[3] : r \in {q \in refs : <<q[1], q[2]>> = k}}) # {}
                THEN {} ELSE {"SameRefCompatible"})
  ELSE {}

\* every violated clause anywhere in the tree n
WT(n) ==
  UNION {IF IsExpr(x) THEN WTNode(x) ELSE WTPredicate(x) : x \in Nodes(n)}

(***************************************************************************)
(* First difference between two STRIPPED trees, as a path (for diagnosis); *)
(* "" when they are equal.                                                  *)
(***************************************************************************)
SKids(n) ==
  CASE n.cls = "HplSet"                 -> n.values
    [] n.cls = "HplRange"               -> <<n.min_value, n.max_value>>
    [] n.cls = "HplQuantifier"          -> <<n.domain, n.condition>>
    [] n.cls = "HplUnaryOperator"       -> <<n.operand>>
    [] n.cls = "HplBinaryOperator"      -> <<n.operand1, n.operand2>>
    [] n.cls = "HplFunctionCall"        -> n.arguments
    [] n.cls = "HplFieldAccess"         -> <<n.message>>
    [] n.cls = "HplArrayAccess"         -> <<n.array, n.index>>
    [] n.cls = "HplPredicateExpression" -> <<n.expression>>
    [] n.cls = "HplSimpleEvent"         -> <<n.predicate>>
    [] n.cls = "HplEventDisjunction"    -> <<n.event1, n.event2>>
    [] n.cls = "HplScope"               -> <<n.activator, n.terminator>>
    [] n.cls = "HplPattern"             -> <<n.trigger, n.behaviour>>
    [] n.cls = "HplProperty"            -> <<n.scope, n.pattern>>
    [] n.cls = "HplSpecification"       -> n.properties
    [] OTHER                            -> <<>>

RECURSIVE Diff(_, _)
Diff(a, b) ==
  IF a = b THEN ""
  ELSE IF a.cls # b.cls THEN "cls(" \o a.cls \o "/" \o b.cls \o ")"
  ELSE LET ka == SKids(a) kb == SKids(b) IN
       IF Len(ka) # Len(kb) THEN a.cls \o ".arity"
       ELSE LET ds == {i \in 1..Len(ka) : ka[i] # kb[i]} IN
            IF ds = {} THEN a.cls \o ".fields"
            ELSE LET i == CHOOSE j \in ds : \A m \in ds : j <= m
                 IN a.cls \o "." \o ToString(i) \o "/" \o Diff(ka[i], kb[i])
=============================================================================
