--------------------------------- MODULE T_C15 ---------------------------------
(* Trace validation for C15: each event records the answers of the reference queries  *)
(* of one real AST node (`node`, projected with object ids) and the spec recomputes   *)
(* them with the HplAst operators.                                                     *)
(* An answer is <<"na">> (query not offered by the class), <<"ok", v>> or <<"exc", c>> *)
EXTENDS TraceBatch, HplAst
VARIABLES l
vars == <<l>>

Truth(v) == v = TRUE      \* answers are logged as truthiness

\* alternative sibling order of the two events of a pattern (source order of `requires`)
KidsAlt(n) == IF n.cls = "HplPattern" THEN <<n.behaviour>> \o Opt(n.trigger) ELSE Kids(n)
RECURSIVE PreOrderAlt(_), PreOrderAltSeq(_)
PreOrderAlt(n) == <<n>> \o PreOrderAltSeq(KidsAlt(n))
PreOrderAltSeq(q) == IF q = <<>> THEN <<>> ELSE PreOrderAlt(Head(q)) \o PreOrderAltSeq(Tail(q))
Oids(q) == [i \in 1..Len(q) |-> q[i].oid]

Chk(ans, clause, ok(_)) ==
  IF ans[1] = "na" THEN {}
  ELSE IF ans[1] = "exc" THEN {clause \o ".raised." \o ans[2]}
  ELSE IF ok(ans[2]) THEN {} ELSE {clause}

Verdict(e) ==
  LET n == e.node IN
    Chk(e.ext, "ExternalReferences", LAMBDA v : ToSet(v) = ExtRefs(n))
    \cup Chk(e.cref, "ContainsReference", LAMBDA v : \A i \in 1..Len(v) : Truth(v[i][2]) = ContainsRef(n, v[i][1]))
    \cup Chk(e.cself, "ContainsSelfReference", LAMBDA v : Truth(v) = ContainsSelf(n))
    \cup Chk(e.cdef, "ContainsDefinition", LAMBDA v : \A i \in 1..Len(v) : Truth(v[i][2]) = ContainsDef(n, v[i][1]))
    \cup Chk(e.aliases, "Aliases", LAMBDA v : v = Aliases(n))
    \cup (IF e.own[1] = "na" THEN {}
          ELSE IF e.own[1] = "ok" THEN (IF OwnFieldPresent(n) THEN {} ELSE {"OwnFieldCheck.MustRaise"})
          ELSE IF e.own[2] = "HplSanityError" THEN (IF OwnFieldPresent(n) THEN {"OwnFieldCheck.MustPass"} ELSE {})
          ELSE {"OwnFieldCheck.raised." \o e.own[2]})
    \cup Chk(e.iter, "IteratePreOrder", LAMBDA v : v = Oids(PreOrder(n)) \/ v = Oids(PreOrderAlt(n)))

Init == l = 1
Step == l <= NEvents /\ ReportAll(Events[l].id, Verdict(Events[l])) /\ l' = l + 1
Finish == l = NEvents + 1 /\ Done(NEvents) /\ l' = l + 1
Next == Step \/ Finish
Spec == Init /\ [][Next]_vars
=============================================================================
