SPECIFICATION Spec
CONSTANT ErrorClasses = {"HplSyntaxError", "HplSanityError", "TypeError", "ValueError"}
INVARIANT ExitFaithful
INVARIANT FailureIsOne
INVARIANT JsonWhenAsked
CHECK_DEADLOCK FALSE
