---------------------------------- MODULE HplFiles ----------------------------------
(* The file-level machine (C18): a specification file is a sequence of members; a     *)
(* member is a block of annotations (# id / # title / # description, any subset, any   *)
(* order, optionally with a duplicate or an unknown key) followed by a property drawn  *)
(* from a pool (by index).  Transition: append one member.                              *)
EXTENDS Naturals, Sequences, FiniteSets, TLC, Json
CONSTANTS NPool, MaxMembers, AnnMode   \* AnnMode: "all" | "small"
VARIABLE file

Keys == {"id", "title", "description"}
\* all sequences without repetition over Keys
Perms == {<<>>} \cup {<<a>> : a \in Keys} \cup {s \in Keys \X Keys : s[1] # s[2]}
         \cup {s \in Keys \X Keys \X Keys : s[1] # s[2] /\ s[1] # s[3] /\ s[2] # s[3]}
Faulty == {<<"id", "id">>, <<"title", "id", "title">>, <<"unknown">>, <<"id", "unknown">>, <<"description", "description">>}
AnnSeqs == IF AnnMode = "all" THEN Perms \cup Faulty
           ELSE {<<>>, <<"id">>, <<"title", "id">>, <<"id", "title", "description">>, <<"id", "id">>, <<"unknown">>}

Init == file = <<>>
Next == Len(file) < MaxMembers /\ \E p \in 1..NPool, a \in AnnSeqs : file' = Append(file, [p |-> p, ann |-> a])
Spec == Init /\ [][Next]_file

\* what the file denotes
HasDuplicate(a) == \E i \in 1..Len(a) : \E j \in 1..Len(a) : i # j /\ a[i] = a[j]
HasUnknown(a) == \E i \in 1..Len(a) : a[i] \notin Keys
AnnOK(a) == ~HasDuplicate(a) /\ ~HasUnknown(a)
KeysOf(a) == {a[i] : i \in 1..Len(a)}

Emit == Len(file) > 0 => PrintT(<<"S", ToJson(file)>>)
=============================================================================
