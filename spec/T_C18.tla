--------------------------------- MODULE T_C18 ---------------------------------
(* C18: parsing a file of k members yields exactly the k ASTs that parsing each      *)
(* member on its own yields, in order, each with exactly its own annotations; one     *)
(* invalid member rejects the whole file with the class it raises on its own.         *)
(* event: [id, members: seq of [ann: seq of keys, out (single parse), obs (single)],   *)
(*         out (file parse), obs (file AST)]                                            *)
EXTENDS TraceBatch, HplAst
VARIABLES l
vars == <<l>>

KeySet(md) == {md[i][1] : i \in 1..Len(md)}
AnnKeys(a) == {a[i] : i \in 1..Len(a)}

Verdict(e) ==
  LET k == Len(e.members)
      badm == {i \in 1..k : e.members[i].out # "ast"}
  IN
  IF k = 0 THEN (IF e.out = "ast" THEN {"EmptyFileRejected"} ELSE {})
  ELSE IF badm = {} THEN
       IF e.out # "ast" THEN {"ValidFileAccepted:" \o e.out}
       ELSE IF Len(e.obs.properties) # k THEN {"ExactlyKProperties"}
       ELSE UNION {LET fp == e.obs.properties[i] sp == e.members[i].obs IN
                   (IF Val(fp) = Val(sp) THEN {} ELSE {"SameAstAsAlone:" \o Diff(Strip(sp), Strip(fp))})
                   \cup (IF fp.metadata = sp.metadata THEN {} ELSE {"SameAnnotationsAsAlone"})
                   \cup (IF KeySet(fp.metadata) = AnnKeys(e.members[i].ann) /\ Len(fp.metadata) = Len(e.members[i].ann)
                         THEN {} ELSE {"ExactlyOwnAnnotations"})
                   : i \in 1..k}
  ELSE IF e.out = "ast" THEN {"InvalidMemberRejectsFile"}
  ELSE IF Cardinality(badm) = 1 THEN
       (LET j == CHOOSE i \in badm : TRUE IN
        IF e.out = e.members[j].out THEN {} ELSE {"SameErrorClassAsAlone:" \o e.members[j].out \o "/" \o e.out})
  ELSE {}

Init == l = 1
Step == l <= NEvents /\ ReportAll(Events[l].id, Verdict(Events[l])) /\ l' = l + 1
Finish == l = NEvents + 1 /\ Done(NEvents) /\ l' = l + 1
Next == Step \/ Finish
Spec == Init /\ [][Next]_vars
=============================================================================
