--------------------------------- MODULE T_C06 ---------------------------------
(* Session schedule  Parse(t) ; Str(h1) ; Parse(str) ; Str(h2)  recorded as one event; *)
(* the trace spec keeps, as its state, the printed forms seen so far in the batch to    *)
(* check that printing is injective on ASTs and on references.                           *)
EXTENDS TraceBatch, HplAst
VARIABLES l, printed, refprinted
vars == <<l, printed, refprinted>>

RoundTrip(e) ==
  IF e.out1 # "ast" THEN {}
  ELSE IF e.str1[1] # "ok" THEN {"Printable:" \o e.str1[2]}
  ELSE IF e.out2 # "ast" THEN {"ParsesBack:" \o e.out2}
  ELSE (IF Val(e.obs2) = Val(e.obs1) THEN {} ELSE {"EqualAst:" \o Diff(Strip(e.obs1), Strip(e.obs2))})
       \cup (IF e.pyeq THEN {} ELSE {"EqualByImplementationEq"})
       \cup (IF e.obs2.ohash = e.obs1.ohash THEN {} ELSE {"EqualHash"})
       \cup (IF e.str2[1] = "ok" /\ e.str2[2] = e.str1[2] THEN {} ELSE {"PrintStable"})

Injective(e) ==
  IF e.out1 # "ast" \/ e.str1[1] # "ok" THEN {}
  ELSE (IF e.str1[2] \in DOMAIN printed /\ printed[e.str1[2]] # Val(e.obs1) THEN {"PrintInjectiveOnAsts"} ELSE {})
       \cup (IF \E i \in 1..Len(e.refs) : e.refs[i][1] \in DOMAIN refprinted /\ refprinted[e.refs[i][1]] # e.refs[i][2]
             THEN {"PrintIdentifiesReference"} ELSE {})
       \cup (IF \E i \in 1..Len(e.refs) : \E j \in 1..Len(e.refs) : e.refs[i][1] = e.refs[j][1] /\ e.refs[i][2] # e.refs[j][2]
             THEN {"PrintIdentifiesReference"} ELSE {})

Upd(f, k, v) == [x \in (DOMAIN f) \cup {k} |-> IF x = k THEN v ELSE f[x]]
RECURSIVE AddRefs(_, _, _)
AddRefs(f, refs, i) == IF i > Len(refs) THEN f ELSE AddRefs(Upd(f, refs[i][1], refs[i][2]), refs, i + 1)

Init == l = 1 /\ printed = [x \in {} |-> 0] /\ refprinted = [x \in {} |-> 0]
Step == /\ l <= NEvents
        /\ LET e == Events[l] IN
             /\ ReportAll(e.id, RoundTrip(e) \cup Injective(e))
             /\ printed' = IF e.out1 = "ast" /\ e.str1[1] = "ok" /\ e.str1[2] \notin DOMAIN printed
                           THEN Upd(printed, e.str1[2], Val(e.obs1)) ELSE printed
             /\ refprinted' = IF e.out1 = "ast" THEN AddRefs(refprinted, e.refs, 1) ELSE refprinted
        /\ l' = l + 1
Finish == l = NEvents + 1 /\ Done(NEvents) /\ l' = l + 1 /\ UNCHANGED <<printed, refprinted>>
Next == Step \/ Finish
Spec == Init /\ [][Next]_vars
=============================================================================
