---------------------------------- MODULE HplProps ----------------------------------
(***************************************************************************)
(* Canonical decomposition of a property (C11; anchor: hpl.rewrite.         *)
(* canonical_form).  Works on any record representation of a property that  *)
(* has the fields scope.activator, pattern.behaviour, pattern.trigger.      *)
(***************************************************************************)
EXTENDS HplAst

\* which event of the pattern is split over its alternatives
SplitSlot(ptype) == IF ptype = "RESPONSE" THEN "trigger"
                    ELSE IF ptype \in {"ABSENCE", "REQUIREMENT", "PREVENTION"} THEN "behaviour"
                    ELSE "none"       \* EXISTENCE: never split

WithActivator(p, a) == [p EXCEPT !.scope = [p.scope EXCEPT !.activator = a]]
WithSplit(p, e) ==
  IF SplitSlot(p.pattern.pattern_type) = "trigger" THEN [p EXCEPT !.pattern = [p.pattern EXCEPT !.trigger = e]]
  ELSE IF SplitSlot(p.pattern.pattern_type) = "behaviour" THEN [p EXCEPT !.pattern = [p.pattern EXCEPT !.behaviour = e]]
  ELSE p

ActAlts(p) == IF IsNone(p.scope.activator) THEN <<NoneNode>> ELSE SimpleEvents(p.scope.activator)
SplitAlts(p) ==
  IF SplitSlot(p.pattern.pattern_type) = "trigger" THEN SimpleEvents(p.pattern.trigger)
  ELSE IF SplitSlot(p.pattern.pattern_type) = "behaviour" THEN SimpleEvents(p.pattern.behaviour)
  ELSE <<NoneNode>>

NeedsSplit(p) == Len(ActAlts(p)) > 1 \/ Len(SplitAlts(p)) > 1

\* activator-major, source order
CanonicalForm(p) ==
  IF ~NeedsSplit(p) THEN <<p>>
  ELSE LET as == ActAlts(p) ss == SplitAlts(p) na == Len(as) ns == Len(ss) IN
       [k \in 1..(na * ns) |->
          LET i == ((k - 1) \div ns) + 1
              j == ((k - 1) % ns) + 1
              q == IF IsNone(as[i]) THEN p ELSE WithActivator(p, as[i])
          IN IF IsNone(ss[j]) THEN q ELSE WithSplit(q, ss[j])]
=============================================================================
