SPECIFICATION Spec
CONSTANT Triples = FALSE
INVARIANT Idempotent
INVARIANT Commut
INVARIANT Assoc
INVARIANT Monotone
INVARIANT CanBeLaw
INVARIANT GLB
INVARIANT LUB
INVARIANT Narrows
CHECK_DEADLOCK FALSE
