------------------------------- MODULE HplGrammar -------------------------------
(***************************************************************************)
(* L1: the grammar derivation machine (anchors: src/hpl/grammars/*.lark,   *)
(* src/hpl/grammar.py, the transformer in src/hpl/parser.py).               *)
(*                                                                         *)
(* State: `cst`, a concrete-syntax tree with holes (a sentential form).    *)
(* Transition: replace the LEFTMOST hole by one production admissible at    *)
(* the grammar level the hole demands.  Terminal states = complete trees.  *)
(* For a complete tree, Tokens(cst) is the token sequence of the sentence   *)
(* and Ast(cst) the abstract tree the grammar assigns to it (in the shape   *)
(* of HplAst!Strip).                                                        *)
(*                                                                         *)
(* Expression levels follow the Lark rules one to one:                     *)
(*  0 condition (implies, iff)   1 disjunction (or)   2 conjunction (and)   *)
(*  3 _logic_expr: negation | quantification | atomic_condition (REL)       *)
(*  4 expr: plus minus   5 term: times divide   6 factor: power, LEFT-assoc   *)
(*  7 _exponent: negative_number | "(" condition ")" | _atomic_value        *)
(*  8 _atomic_value   9 _reference                                          *)
(* Property levels: 20 _any_event, 21 event, 22 optional predicate,         *)
(*  23 optional time bound, 24 scope, 25 pattern, 30 hpl_property           *)
(***************************************************************************)
EXTENDS Naturals, Sequences, FiniteSets, TLC, Json, HplAst

CONSTANTS
  Start,      \* level of the initial hole
  MaxTok,     \* bound on the number of tokens of a sentence
  IfOps, OrOps, AndOps, NotOps, Quants, RelOps, AddOps, MulOps, PowOps, NegOps,
  Parens,     \* BOOLEAN: is the "(" condition ")" production enabled
  Bools, Strs, Nums, Consts, CallFuns, SetLens, RangeL, RangeR,
  Names,      \* CNAME tokens usable as own-field names
  Vars,       \* VAR_REF tokens, e.g. "@v"
  Fields,     \* CNAME tokens usable after "."
  QVars,      \* CNAME tokens usable as quantified variable
  Channels, AliasNames, Times, Units, DisjLens, ScopeKinds, PatternKinds,
  PredPool    \* set of complete expression trees usable as event predicates
              \* ({} = free: predicates are derived by the expression machine)

VARIABLE cst

Hole(l) == [k |-> "hole", lvl |-> l]

(***************************************************************************)
(* Productions                                                              *)
(***************************************************************************)
Bin(op, ll, rl) == [k |-> "bin", op |-> op, l |-> Hole(ll), r |-> Hole(rl)]

ProdsAt(l) ==
  CASE l = 0 -> {Bin(op, 0, 1) : op \in IfOps}
    [] l = 1 -> {Bin(op, 1, 2) : op \in OrOps}
    [] l = 2 -> {Bin(op, 2, 3) : op \in AndOps}
    [] l = 3 -> {[k |-> "un", op |-> op, a |-> Hole(3)] : op \in NotOps}
                \cup {[k |-> "quant", q |-> q, v |-> v, dom |-> Hole(8), body |-> Hole(3)] : q \in Quants, v \in QVars}
                \cup {Bin(op, 4, 4) : op \in RelOps}
    [] l = 4 -> {Bin(op, 4, 5) : op \in AddOps}
    [] l = 5 -> {Bin(op, 5, 6) : op \in MulOps}
    [] l = 6 -> {Bin(op, 6, 7) : op \in PowOps}
    [] l = 7 -> {[k |-> "un", op |-> op, a |-> Hole(7)] : op \in NegOps}
                \cup (IF Parens THEN {[k |-> "paren", a |-> Hole(0)]} ELSE {})
    [] l = 8 -> {[k |-> "atom", c |-> "bool", tok |-> t] : t \in Bools}
                \cup {[k |-> "atom", c |-> "str", tok |-> t] : t \in Strs}
                \cup {[k |-> "atom", c |-> "const", tok |-> t] : t \in Consts}
                \cup {[k |-> "atom", c |-> "num", tok |-> t] : t \in Nums}
                \cup {[k |-> "call", f |-> f, a |-> Hole(4)] : f \in CallFuns}
                \cup {[k |-> "set", es |-> [i \in 1..n |-> Hole(4)]] : n \in SetLens}
                \cup {[k |-> "range", lb |-> lb, rb |-> rb, lo |-> Hole(4), hi |-> Hole(4)] : lb \in RangeL, rb \in RangeR}
    [] l = 9 -> {[k |-> "own", name |-> n] : n \in Names}
                \cup {[k |-> "var", tok |-> v] : v \in Vars}
                \cup {[k |-> "fld", ref |-> Hole(9), name |-> f] : f \in Fields}
                \cup (IF Names \cup Vars # {} THEN {[k |-> "idx", ref |-> Hole(9), i |-> Hole(4)]} ELSE {})
    [] OTHER -> {}

\* a hole at expression level l admits every production of a level >= l
ExprProds(l) == UNION {ProdsAt(j) : j \in l..9}

Event(ch, al) == [k |-> "event", ch |-> ch, alias |-> al, pred |-> Hole(22)]

PropProds(l) ==
  CASE l = 20 -> {Event(ch, al) : ch \in Channels, al \in AliasNames \cup {""}}
                 \cup {[k |-> "edisj", es |-> [i \in 1..n |-> Hole(21)]] : n \in DisjLens}
    [] l = 21 -> {Event(ch, al) : ch \in Channels, al \in AliasNames \cup {""}}
    [] l = 22 -> {[k |-> "nopred"]}
                 \cup (IF PredPool = {} THEN {[k |-> "pred", c |-> Hole(0)]}
                       ELSE {[k |-> "pred", c |-> c] : c \in PredPool})
    [] l = 23 -> {[k |-> "notime"]} \cup {[k |-> "time", num |-> t, unit |-> u] : t \in Times, u \in Units}
    [] l = 24 -> (IF "globally" \in ScopeKinds THEN {[k |-> "scope", t |-> "globally"]} ELSE {})
                 \cup (IF "after" \in ScopeKinds THEN {[k |-> "scope", t |-> "after", p |-> Hole(20)]} ELSE {})
                 \cup (IF "until" \in ScopeKinds THEN {[k |-> "scope", t |-> "until", q |-> Hole(20)]} ELSE {})
                 \cup (IF "after_until" \in ScopeKinds THEN {[k |-> "scope", t |-> "after_until", p |-> Hole(20), q |-> Hole(20)]} ELSE {})
    [] l = 25 -> {[k |-> "pat1", t |-> t, b |-> Hole(20), time |-> Hole(23)] : t \in PatternKinds \cap {"some", "no"}}
                 \cup {[k |-> "pat2", t |-> t, a |-> Hole(20), b |-> Hole(20), time |-> Hole(23)]
                        : t \in PatternKinds \cap {"causes", "forbids", "requires"}}
    [] l = 26 -> {[k |-> "pred", c |-> Hole(0)]}       \* hpl_predicate as a start symbol
    [] l = 30 -> {[k |-> "prop", scope |-> Hole(24), pat |-> Hole(25)]}
    [] OTHER -> {}

Prods(l) == IF l <= 9 THEN ExprProds(l) ELSE PropProds(l)

(***************************************************************************)
(* Tree plumbing: children in left-to-right (source) order                  *)
(***************************************************************************)
Children(t) ==
  CASE t.k = "bin"    -> <<t.l, t.r>>
    [] t.k = "un"     -> <<t.a>>
    [] t.k = "quant"  -> <<t.dom, t.body>>
    [] t.k = "paren"  -> <<t.a>>
    [] t.k = "call"   -> <<t.a>>
    [] t.k = "set"    -> t.es
    [] t.k = "range"  -> <<t.lo, t.hi>>
    [] t.k = "fld"    -> <<t.ref>>
    [] t.k = "idx"    -> <<t.ref, t.i>>
    [] t.k = "edisj"  -> t.es
    [] t.k = "event"  -> <<t.pred>>
    [] t.k = "pred"   -> <<t.c>>
    [] t.k = "scope"  -> (IF t.t = "after" THEN <<t.p>> ELSE IF t.t = "until" THEN <<t.q>>
                          ELSE IF t.t = "after_until" THEN <<t.p, t.q>> ELSE <<>>)
    [] t.k = "pat1"   -> <<t.b, t.time>>
    [] t.k = "pat2"   -> <<t.a, t.b, t.time>>
    [] t.k = "prop"   -> <<t.scope, t.pat>>
    [] OTHER          -> <<>>

WithChild(t, i, c) ==
  CASE t.k = "bin"    -> IF i = 1 THEN [t EXCEPT !.l = c] ELSE [t EXCEPT !.r = c]
    [] t.k = "un"     -> [t EXCEPT !.a = c]
    [] t.k = "quant"  -> IF i = 1 THEN [t EXCEPT !.dom = c] ELSE [t EXCEPT !.body = c]
    [] t.k = "paren"  -> [t EXCEPT !.a = c]
    [] t.k = "call"   -> [t EXCEPT !.a = c]
    [] t.k = "set"    -> [t EXCEPT !.es[i] = c]
    [] t.k = "range"  -> IF i = 1 THEN [t EXCEPT !.lo = c] ELSE [t EXCEPT !.hi = c]
    [] t.k = "fld"    -> [t EXCEPT !.ref = c]
    [] t.k = "idx"    -> IF i = 1 THEN [t EXCEPT !.ref = c] ELSE [t EXCEPT !.i = c]
    [] t.k = "edisj"  -> [t EXCEPT !.es[i] = c]
    [] t.k = "event"  -> [t EXCEPT !.pred = c]
    [] t.k = "pred"   -> [t EXCEPT !.c = c]
    [] t.k = "scope"  -> (IF t.t = "after" THEN [t EXCEPT !.p = c] ELSE IF t.t = "until" THEN [t EXCEPT !.q = c]
                          ELSE IF i = 1 THEN [t EXCEPT !.p = c] ELSE [t EXCEPT !.q = c])
    [] t.k = "pat1"   -> IF i = 1 THEN [t EXCEPT !.b = c] ELSE [t EXCEPT !.time = c]
    [] t.k = "pat2"   -> IF i = 1 THEN [t EXCEPT !.a = c] ELSE IF i = 2 THEN [t EXCEPT !.b = c] ELSE [t EXCEPT !.time = c]
    [] t.k = "prop"   -> IF i = 1 THEN [t EXCEPT !.scope = c] ELSE [t EXCEPT !.pat = c]
    [] OTHER          -> t

RECURSIVE HasHole(_)
HasHole(t) == t.k = "hole" \/ \E i \in 1..Len(Children(t)) : HasHole(Children(t)[i])

RECURSIVE Expand(_)
Expand(t) ==
  IF t.k = "hole" THEN Prods(t.lvl)
  ELSE LET cs == Children(t)
           hs == {i \in 1..Len(cs) : HasHole(cs[i])}
       IN IF hs = {} THEN {}
          ELSE LET i == CHOOSE j \in hs : \A m \in hs : j <= m
               IN {WithChild(t, i, c) : c \in Expand(cs[i])}

(***************************************************************************)
(* Token sequences.  A hole counts for the minimum number of tokens of any  *)
(* sentence derivable from it.                                              *)
(***************************************************************************)
RECURSIVE Tokens(_), TokensSep(_, _)
TokensSep(q, sep) ==
  IF q = <<>> THEN <<>>
  ELSE IF Len(q) = 1 THEN Tokens(q[1])
  ELSE Tokens(q[1]) \o <<sep>> \o TokensSep(Tail(q), sep)

Tokens(t) ==
  CASE t.k = "hole"   -> (IF t.lvl = 22 \/ t.lvl = 23 THEN <<>>
                          ELSE IF t.lvl = 24 THEN <<"?">>
                          ELSE IF t.lvl = 25 THEN <<"?", "?">>
                          ELSE IF t.lvl = 26 THEN <<"{", "?", "}">>
                          ELSE IF t.lvl = 30 THEN <<"?", ":", "?", "?">> ELSE <<"?">>)
    [] t.k = "bin"    -> Tokens(t.l) \o <<t.op>> \o Tokens(t.r)
    [] t.k = "un"     -> <<t.op>> \o Tokens(t.a)
    [] t.k = "quant"  -> <<t.q, t.v, "in">> \o Tokens(t.dom) \o <<":">> \o Tokens(t.body)
    [] t.k = "paren"  -> <<"(">> \o Tokens(t.a) \o <<")">>
    [] t.k = "atom"   -> <<t.tok>>
    [] t.k = "call"   -> <<t.f, "(">> \o Tokens(t.a) \o <<")">>
    [] t.k = "set"    -> <<"{">> \o TokensSep(t.es, ",") \o <<"}">>
    [] t.k = "range"  -> <<t.lb>> \o Tokens(t.lo) \o <<"to">> \o Tokens(t.hi) \o <<t.rb>>
    [] t.k = "own"    -> <<t.name>>
    [] t.k = "var"    -> <<t.tok>>
    [] t.k = "fld"    -> Tokens(t.ref) \o <<".", t.name>>
    [] t.k = "idx"    -> Tokens(t.ref) \o <<"[">> \o Tokens(t.i) \o <<"]">>
    [] t.k = "edisj"  -> <<"(">> \o TokensSep(t.es, "or") \o <<")">>
    [] t.k = "event"  -> <<t.ch>> \o (IF t.alias = "" THEN <<>> ELSE <<"as", t.alias>>) \o Tokens(t.pred)
    [] t.k = "nopred" -> <<>>
    [] t.k = "pred"   -> <<"{">> \o Tokens(t.c) \o <<"}">>
    [] t.k = "notime" -> <<>>
    [] t.k = "time"   -> <<"within", t.num, t.unit>>
    [] t.k = "scope"  -> (IF t.t = "globally" THEN <<"globally">>
                          ELSE IF t.t = "after" THEN <<"after">> \o Tokens(t.p)
                          ELSE IF t.t = "until" THEN <<"until">> \o Tokens(t.q)
                          ELSE <<"after">> \o Tokens(t.p) \o <<"until">> \o Tokens(t.q))
    [] t.k = "pat1"   -> <<t.t>> \o Tokens(t.b) \o Tokens(t.time)
    [] t.k = "pat2"   -> Tokens(t.a) \o <<t.t>> \o Tokens(t.b) \o Tokens(t.time)
    [] t.k = "prop"   -> Tokens(t.scope) \o <<":">> \o Tokens(t.pat)
    [] OTHER          -> <<>>

MinTok(t) == Len(Tokens(t))

(***************************************************************************)
(* The abstract tree the grammar assigns to a complete concrete tree        *)
(***************************************************************************)
NumValue(tok) ==
  CASE tok = "0" -> <<"n", 0, 1>>  [] tok = "1" -> <<"n", 1, 1>>  [] tok = "2" -> <<"n", 2, 1>>
    [] tok = "3" -> <<"n", 3, 1>>  [] tok = "10" -> <<"n", 10, 1>> [] tok = "100" -> <<"n", 100, 1>>
    [] tok = "1.5" -> <<"n", 3, 2>> [] tok = "0.5" -> <<"n", 1, 2>> [] tok = "2.0" -> <<"n", 2, 1>>
    [] tok = "1e3" -> <<"n", 1000, 1>> [] tok = "250" -> <<"n", 250, 1>> [] tok = "7" -> <<"n", 7, 1>>
    [] tok = "700" -> <<"n", 700, 1>> [] tok = "9" -> <<"n", 9, 1>> [] tok = "13" -> <<"n", 13, 1>> [] tok = "350" -> <<"n", 350, 1>>
    [] OTHER -> <<"x", tok>>

ConstValue(tok) ==
  CASE tok = "PI" -> <<"x", "3.141592653589793">>
    [] tok = "E" -> <<"x", "2.718281828459045">>
    [] tok = "INF" -> <<"inf", 1>>
    [] tok = "NAN" -> <<"nan">>
    [] OTHER -> <<"x", tok>>

RECURSIVE Gcd(_, _)
Gcd(a, b) == IF b = 0 THEN a ELSE Gcd(b, a % b)
Norm(n, d) == LET g == Gcd(n, d) IN IF g = 0 THEN <<"n", 0, 1>> ELSE <<"n", n \div g, d \div g>>

TimeValue(num, unit) ==
  LET v == NumValue(num) IN
  IF v[1] # "n" THEN v
  ELSE IF unit = "ms" THEN Norm(v[2], v[3] * 1000) ELSE v

Lit(tok, val) == [cls |-> "HplLiteral", token |-> tok, value |-> val]

RECURSIVE Ast(_), AstSeq(_), AstDisj(_)
AstSeq(q) == [i \in 1..Len(q) |-> Ast(q[i])]
AstDisj(q) == IF Len(q) = 1 THEN Ast(q[1])
              ELSE [cls |-> "HplEventDisjunction", event1 |-> Ast(q[1]), event2 |-> AstDisj(Tail(q))]

QuantName(q) == q      \* "forall" / "exists" are both the token and the enum value
ScopeType(t) == IF t = "globally" THEN "GLOBAL" ELSE IF t = "after" THEN "AFTER"
                ELSE IF t = "until" THEN "UNTIL" ELSE "AFTER_UNTIL"
PatternType(t) == IF t = "some" THEN "EXISTENCE" ELSE IF t = "no" THEN "ABSENCE"
                  ELSE IF t = "causes" THEN "RESPONSE" ELSE IF t = "forbids" THEN "PREVENTION" ELSE "REQUIREMENT"

TimeOf(t) == IF t.k = "notime" THEN <<"inf", 1>> ELSE TimeValue(t.num, t.unit)

Ast(t) ==
  CASE t.k = "bin"    -> [cls |-> "HplBinaryOperator", operator |-> t.op, operand1 |-> Ast(t.l), operand2 |-> Ast(t.r)]
    [] t.k = "un"     -> [cls |-> "HplUnaryOperator", operator |-> t.op, operand |-> Ast(t.a)]
    [] t.k = "quant"  -> [cls |-> "HplQuantifier", quantifier |-> QuantName(t.q), variable |-> t.v,
                          domain |-> Ast(t.dom), condition |-> Ast(t.body)]
    [] t.k = "paren"  -> Ast(t.a)
    [] t.k = "atom"   -> (IF t.c = "bool" THEN Lit(t.tok, <<"b", t.tok = "True">>)
                          ELSE IF t.c = "str" THEN Lit(t.tok, <<"s", t.tok>>)
                          ELSE IF t.c = "const" THEN Lit(t.tok, ConstValue(t.tok))
                          ELSE Lit(t.tok, NumValue(t.tok)))
    [] t.k = "call"   -> [cls |-> "HplFunctionCall", function |-> t.f, arguments |-> <<Ast(t.a)>>]
    [] t.k = "set"    -> [cls |-> "HplSet", values |-> AstSeq(t.es)]
    [] t.k = "range"  -> [cls |-> "HplRange", min_value |-> Ast(t.lo), max_value |-> Ast(t.hi),
                          exclude_min |-> (t.lb = "!["), exclude_max |-> (t.rb = "]!")]
    [] t.k = "own"    -> [cls |-> "HplFieldAccess", message |-> ThisNode, field |-> t.name]
    [] t.k = "var"    -> [cls |-> "HplVarReference", name |-> t.tok]   \* harness strips the "@"
    [] t.k = "fld"    -> [cls |-> "HplFieldAccess", message |-> Ast(t.ref), field |-> t.name]
    [] t.k = "idx"    -> [cls |-> "HplArrayAccess", array |-> Ast(t.ref), index |-> Ast(t.i)]
    [] t.k = "edisj"  -> AstDisj(t.es)
    [] t.k = "nopred" -> [cls |-> "HplVacuousTruth"]
    [] t.k = "pred"   -> LET e == Ast(t.c) IN
                         IF e.cls = "HplLiteral" /\ e.value = <<"b", TRUE>> THEN [cls |-> "HplVacuousTruth"]
                         ELSE IF e.cls = "HplLiteral" /\ e.value = <<"b", FALSE>> THEN [cls |-> "HplContradiction"]
                         ELSE [cls |-> "HplPredicateExpression", expression |-> e]
    [] t.k = "event"  -> [cls |-> "HplSimpleEvent", name |-> t.ch,
                          alias |-> (IF t.alias = "" THEN <<"none">> ELSE <<"some", t.alias>>),
                          predicate |-> (IF t.alias = "" THEN Ast(t.pred)
                                         ELSE Subst(Ast(t.pred), [cls |-> "HplVarReference", name |-> "@" \o t.alias], ThisNode))]
    [] t.k = "scope"  -> [cls |-> "HplScope", scope_type |-> ScopeType(t.t),
                          activator |-> (IF t.t \in {"after", "after_until"} THEN Ast(t.p) ELSE NoneNode),
                          terminator |-> (IF t.t \in {"until", "after_until"} THEN Ast(t.q) ELSE NoneNode)]
    [] t.k = "pat1"   -> [cls |-> "HplPattern", pattern_type |-> PatternType(t.t), behaviour |-> Ast(t.b),
                          trigger |-> NoneNode, min_time |-> <<"n", 0, 1>>, max_time |-> TimeOf(t.time)]
    [] t.k = "pat2"   -> [cls |-> "HplPattern", pattern_type |-> PatternType(t.t),
                          behaviour |-> (IF t.t = "requires" THEN Ast(t.a) ELSE Ast(t.b)),
                          trigger   |-> (IF t.t = "requires" THEN Ast(t.b) ELSE Ast(t.a)),
                          min_time |-> <<"n", 0, 1>>, max_time |-> TimeOf(t.time)]
    [] t.k = "prop"   -> [cls |-> "HplProperty", scope |-> Ast(t.scope), pattern |-> Ast(t.pat)]
    [] OTHER          -> [cls |-> "None"]

(***************************************************************************)
(* The machine                                                              *)
(***************************************************************************)
Init == cst = Hole(Start)
Next == cst' \in {x \in Expand(cst) : MinTok(x) <= MaxTok}
Spec == Init /\ [][Next]_cst

Complete == ~HasHole(cst)

\* Emission of every complete tree (used with -workers 1): always TRUE
Emit == Complete => PrintT(<<"S", ToJson([toks |-> Tokens(cst), ast |-> Ast(cst)])>>)
EmitTokens == Complete => PrintT(<<"T", ToJson(Tokens(cst))>>)
=============================================================================
