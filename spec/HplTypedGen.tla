------------------------------- MODULE HplTypedGen -------------------------------
(***************************************************************************)
(* Type-directed families of concrete-syntax trees (well-typed by           *)
(* construction), built on the node kinds of HplGrammar so that Tokens and  *)
(* Ast apply.  Every family is a finite set enumerated completely by TLC:   *)
(* the initial states of the instance are the members of the family named   *)
(* by the constant Family, and Emit prints each of them.                    *)
(* Used as input space for C03, C08, C09, C10, C13, C14, C16.                *)
(***************************************************************************)
EXTENDS HplGrammar

CONSTANTS Family,
          RandN, RandDepth   \* family "rand": number of samples and nesting depth (TLC -seed selects them)

Own(n)     == [k |-> "own", name |-> n]
NumA(t)    == [k |-> "atom", c |-> "num", tok |-> t]
BoolA(t)   == [k |-> "atom", c |-> "bool", tok |-> t]
StrA(t)    == [k |-> "atom", c |-> "str", tok |-> t]
ConstA(t)  == [k |-> "atom", c |-> "const", tok |-> t]
VarR(v)    == [k |-> "var", tok |-> v]
Fld(r, f)  == [k |-> "fld", ref |-> r, name |-> f]
RelOpsAll == {"=", "!=", "<", "<=", ">", ">=", "in"}
\* positions of grammar level `expr` (call argument, set element, range bound, index): a relational,
\* logical or quantified term must be parenthesised there
NeedsP4(t) == \/ (t.k = "bin" /\ t.op \in RelOpsAll \cup LogicOps)
              \/ (t.k = "un" /\ t.op = "not") \/ t.k = "quant"
P4(t) == IF NeedsP4(t) THEN [k |-> "paren", a |-> t] ELSE t
Call(f, a) == [k |-> "call", f |-> f, a |-> P4(a)]
SetOf(es)  == [k |-> "set", es |-> [i \in 1..Len(es) |-> P4(es[i])]]
Rng(lb, lo, hi, rb) == [k |-> "range", lb |-> lb, rb |-> rb, lo |-> P4(lo), hi |-> P4(hi)]
Idx(r, i)  == [k |-> "idx", ref |-> r, i |-> P4(i)]
Atomic(t)  == t.k \in {"own", "var", "atom", "fld", "idx", "call", "set", "range", "paren"}
P(t)       == IF Atomic(t) THEN t ELSE [k |-> "paren", a |-> t]
Bn(op, l, r) == [k |-> "bin", op |-> op, l |-> P(l), r |-> P(r)]
Un(op, a)  == [k |-> "un", op |-> op, a |-> P(a)]
Qn(q, v, d, b) == [k |-> "quant", q |-> q, v |-> v, dom |-> d, body |-> P(b)]

(* ---- atoms ---- *)
NumAtoms  == {Own("x"), Own("y"), NumA("0"), NumA("1")}
NumAtomsW == NumAtoms \cup {NumA("2"), Fld(VarR("@A"), "n"), Idx(Own("xs"), NumA("0"))}
BoolAtoms == {Own("p"), BoolA("True")}
BoolAtomsW == BoolAtoms \cup {Own("q"), BoolA("False"), Fld(VarR("@A"), "b")}

(* ---- depth 1 ---- *)
Num1(A) == A \cup {Un("-", a) : a \in A} \cup {Bn(op, a, b) : op \in ArithOps, a \in A, b \in A}
Bool1(NA, BA) ==
  BA \cup {Un("not", a) : a \in BA}
     \cup {Bn(op, a, b) : op \in LogicOps, a \in BA, b \in BA}
     \cup {Bn(op, a, b) : op \in EqOps \cup OrdOps, a \in NA, b \in NA}
     \cup {Bn(op, a, b) : op \in EqOps, a \in BA, b \in BA}

(* ---- depth 2: one operand of depth <= 1, the other an atom (both orders) ---- *)
Num2 == LET A == NumAtoms N1 == Num1(A) IN
  {Un("-", a) : a \in N1}
  \cup {Bn(op, a, b) : op \in ArithOps, a \in N1, b \in A}
  \cup {Bn(op, a, b) : op \in ArithOps, a \in A, b \in N1}
Bool2 == LET NA == NumAtoms BA == BoolAtoms N1 == Num1(NA) B1 == Bool1(NA, BA) IN
  {Un("not", a) : a \in B1}
  \cup {Bn(op, a, b) : op \in LogicOps, a \in B1, b \in BA}
  \cup {Bn(op, a, b) : op \in LogicOps, a \in BA, b \in B1}
  \cup {Bn(op, a, b) : op \in EqOps \cup OrdOps, a \in N1, b \in NA}
  \cup {Bn(op, a, b) : op \in EqOps \cup OrdOps, a \in NA, b \in N1}
  \cup {Bn(op, a, b) : op \in EqOps, a \in B1, b \in BA}

(* ---- both operands of depth 1 over a tiny atom set (associativity / rotation rules) ---- *)
TinyNum  == {Own("x"), NumA("2"), Fld(VarR("@A"), "n")}
TinyBool == {Own("p"), Fld(VarR("@A"), "b")}
Num22 == LET N1 == {Bn(op, a, b) : op \in ArithOps, a \in TinyNum, b \in TinyNum} IN
  {Bn(op, a, b) : op \in ArithOps, a \in N1, b \in N1}
Bool22 == LET B1 == {Bn(op, a, b) : op \in LogicOps, a \in TinyBool, b \in TinyBool}
                    \cup {Un("not", a) : a \in TinyBool}
                    \cup {Bn(op, a, b) : op \in {"=", "<"}, a \in TinyNum, b \in TinyNum} IN
  {Bn(op, a, b) : op \in LogicOps \cup {"="}, a \in B1, b \in B1}

(* ---- comparisons between two depth-1 numeric terms (sign / inverse-operator rules) ---- *)
CmpAtoms == {Own("x"), Own("y"), NumA("1")}
Cmp11 == LET N1 == Num1(CmpAtoms) IN {Bn(op, a, b) : op \in EqOps \cup OrdOps, a \in N1, b \in N1}

(* ---- boolean connectives over two comparisons of the same operands (complement / mirror rules) ---- *)
CmpPairs == {<<Own("x"), Own("y")>>, <<Own("x"), NumA("1")>>, <<NumA("1"), Own("x")>>, <<Fld(VarR("@A"), "n"), Own("x")>>}
CmpOps == EqOps \cup OrdOps
CmpBool ==
  {Bn(op, Bn(c1, pr[1], pr[2]), Bn(c2, pr[1], pr[2])) : op \in LogicOps \cup EqOps, c1 \in CmpOps, c2 \in CmpOps, pr \in CmpPairs}
  \cup {Bn(op, Bn(c1, pr[1], pr[2]), Bn(c2, pr[2], pr[1])) : op \in {"and", "or", "iff"}, c1 \in OrdOps, c2 \in OrdOps, pr \in CmpPairs}
  \cup {Bn(op, Bn(c1, pr[1], pr[2]), Un("not", Bn(c2, pr[1], pr[2]))) : op \in {"and", "or"}, c1 \in OrdOps, c2 \in OrdOps, pr \in {<<Own("x"), Own("y")>>}}

(* ---- compound values and functions ---- *)
NumArgs == {NumA("0"), NumA("1"), NumA("2"), Un("-", NumA("1")), NumA("1.5"), Own("x"),
            Bn("+", Own("x"), NumA("1")), Bn("-", NumA("3"), NumA("1"))}
Sets == {SetOf(<<NumA("1")>>), SetOf(<<NumA("1"), NumA("2")>>), SetOf(<<NumA("2"), NumA("2")>>),
         SetOf(<<Own("x")>>), SetOf(<<Own("x"), Own("y")>>), SetOf(<<Own("x"), NumA("1")>>),
         SetOf(<<NumA("1"), Own("x"), NumA("3")>>), SetOf(<<Own("x"), Own("x")>>),
         SetOf(<<Bn("+", NumA("1"), NumA("1")), NumA("2")>>), SetOf(<<NumA("0"), Own("x")>>),
         \* wide literals: several references and several literals (aggregates over them fold to variadic calls)
         SetOf(<<Own("x"), Own("y"), Own("z"), NumA("1"), NumA("2")>>),
         SetOf(<<NumA("3"), Own("x"), NumA("1"), Own("y"), Fld(VarR("@A"), "n"), Idx(Own("xs"), NumA("0"))>>),
         SetOf(<<Own("x"), Own("y"), Own("z"), Own("w")>>)}
Ranges == {Rng(lb, lo, hi, rb) : lb \in {"[", "!["}, rb \in {"]", "]!"},
                                 lo \in {NumA("1"), NumA("0")}, hi \in {NumA("3"), NumA("1")}}
          \cup {Rng("[", NumA("3"), NumA("1"), "]"), Rng("[", Own("x"), NumA("3"), "]"),
                Rng("![", NumA("1"), Own("y"), "]!"), Rng("[", Own("x"), Own("y"), "]"),
                Rng("[", NumA("1.5"), NumA("3"), "]"), Rng("[", Un("-", NumA("1")), NumA("1"), "]")}
FoldRanges == {Rng(lb, lo, hi, rb) : lb \in {"[", "!["}, rb \in {"]", "]!"},
                                     lo \in {Bn("+", NumA("1"), NumA("1")), NumA("2")}, hi \in {Bn("*", NumA("2"), NumA("3")), Bn("+", NumA("3"), NumA("0")), NumA("3")}}
Compounds == Sets \cup Ranges \cup {Own("xs")}
Fun1Num == {"abs", "sqrt", "ceil", "floor", "sin", "cos", "tan", "asin", "acos", "atan", "deg", "rad"}
Calls ==
  {Call(f, a) : f \in Fun1Num, a \in NumArgs}
  \cup {Call(f, a) : f \in {"bool", "int", "float", "str"}, a \in NumArgs \cup {BoolA("True"), Own("p"), StrA("$s")}}
  \cup {Call(f, a) : f \in {"len", "sum", "prod", "max", "min"}, a \in Compounds}
  \cup {Call("len", StrA("$s"))}
  \* gcd over collections, negative members included (a singleton's gcd is its absolute value)
  \cup {Call("gcd", c) : c \in {SetOf(<<Un("-", NumA("4"))>>), SetOf(<<Un("-", NumA("4")), Un("-", Bn("+", NumA("2"), NumA("2")))>>), SetOf(<<NumA("4"), NumA("6")>>),
                                SetOf(<<NumA("12"), Un("-", NumA("18"))>>), SetOf(<<NumA("0"), Un("-", NumA("5"))>>), SetOf(<<Own("x"), NumA("4")>>), Own("xs"),
                                Rng("[", NumA("2"), NumA("4"), "]"), SetOf(<<NumA("7")>>)}}
  \* an aggregate nested as a direct member of the set another aggregate ranges over
  \cup {Call(f, SetOf(<<Call(g, c), NumA("0")>>)) : f \in {"max", "min", "sum"}, g \in {"max", "min", "len"},
                                                    c \in {Own("xs"), Rng("[", NumA("0"), Own("y"), "]"), SetOf(<<Own("x"), Own("y")>>), SetOf(<<NumA("1"), NumA("2")>>)}}
  \cup {Call(f, SetOf(<<Own("x"), Call(f, Own("xs")), Call(f, SetOf(<<Own("y"), NumA("3")>>))>>)) : f \in {"max", "min"}}
FunExprs ==
  Calls \cup {Bn(op, c, b) : op \in {"=", "<", "+"}, c \in Calls \ {Call(f, a) : f \in {"bool", "str"}, a \in NumArgs \cup {BoolA("True"), Own("p"), StrA("$s")}}, b \in {Own("y"), NumA("2")}}
Inclusions ==
  {Bn("in", a, c) : a \in {Own("x"), NumA("1"), NumA("2"), Bn("+", Own("x"), NumA("1"))}, c \in Compounds}
  \cup {Un("not", Bn("in", a, c)) : a \in {Own("x"), NumA("3")}, c \in Ranges}
  \cup {c : c \in Sets \cup Ranges}
  \cup {Bn("in", a, c) : a \in {Own("x"), NumA("2"), NumA("3"), NumA("6")}, c \in FoldRanges}
  \cup {Bn("=", Call(f, c), Own("y")) : f \in {"len", "sum", "max", "min"}, c \in FoldRanges}

(* ---- quantifiers ---- *)
K == VarR("@k")
J == VarR("@j")
Domains == {Own("xs"), SetOf(<<NumA("1"), NumA("2")>>), SetOf(<<Own("x"), NumA("0")>>),
            Rng("[", NumA("0"), NumA("2"), "]"), Rng("[", NumA("1"), NumA("0"), "]"), Rng("![", Own("x"), Own("y"), "]"),
            Fld(VarR("@A"), "ns")}
BodiesK == {Bn(">", K, NumA("0")), Bn("=", K, Own("x")), Bn("<", K, Fld(VarR("@A"), "n")),
            Bn("and", Bn(">", K, NumA("0")), Own("p")), Bn("and", Own("p"), Bn(">", K, NumA("0"))),
            Bn("and", Bn(">", K, NumA("0")), Bn("<", K, NumA("2"))),
            Bn("and", Bn(">", K, NumA("0")), Fld(VarR("@A"), "b")),
            Bn("or", Bn(">", K, NumA("0")), Own("p")),
            Bn("implies", Own("p"), Bn(">", K, NumA("0"))),
            Un("not", Bn("or", Bn(">", K, NumA("0")), Own("p"))),
            Un("not", Bn("or", Bn("<", K, Fld(VarR("@A"), "n")), Own("p"))),
            Un("not", Bn("implies", Bn(">", K, NumA("0")), Own("p"))),
            Un("not", Un("not", Bn(">", K, NumA("0")))),
            Bn("in", K, SetOf(<<NumA("1")>>)),
            Bn("and", Bn("and", Own("p"), Bn(">", K, NumA("0"))), Own("q")),
            Un("not", Bn("implies", Bn(">", K, NumA("0")), Bn(">", Fld(VarR("@A"), "n"), K))),
            Un("not", Bn("implies", Fld(VarR("@A"), "b"), Bn(">", K, NumA("0")))),
            Un("not", Bn("implies", Bn("<", K, Fld(VarR("@A"), "n")), Own("p"))),
            Bn("implies", Bn(">", K, NumA("0")), Bn(">", Fld(VarR("@A"), "n"), K)),
            \* a literal False deep inside a conjunct that does not mention the variable (the quantifier is still true on an empty domain)
            Bn("and", Bn(">", K, NumA("0")), Bn("and", Own("p"), BoolA("False"))),
            Bn("and", Bn("and", BoolA("False"), Own("p")), Bn(">", K, NumA("0"))),
            Bn("and", Bn(">", K, NumA("0")), BoolA("False")),
            \* chains of three conjuncts: two depend on the variable (one of them on the alias), one does not
            Bn("and", Bn("and", Bn(">", K, NumA("0")), Bn("<", K, Fld(VarR("@A"), "n"))), Own("p")),
            Bn("and", Own("p"), Bn("and", Bn(">", K, NumA("0")), Bn("<", K, Fld(VarR("@A"), "n")))),
            Bn("and", Bn("and", Bn("<", K, Fld(VarR("@A"), "n")), Bn(">", K, NumA("0"))), Bn(">", Own("x"), NumA("0"))),
            Bn("and", Bn("and", Bn(">", K, NumA("0")), Fld(VarR("@A"), "b")), Bn("<", K, NumA("1"))),
            \* the bound variable only as an INNER index of an accessor chain
            Bn(">", Idx(Fld(Idx(Own("zs"), K), "ys"), NumA("0")), NumA("0")),
            Bn(">", Idx(Idx(Own("mm"), K), NumA("0")), NumA("0")),
            Bn("or", Bn(">", Idx(Idx(Own("mm"), K), NumA("0")), NumA("0")), Bn(">", Fld(VarR("@A"), "n"), NumA("1"))),
            Bn(">", Fld(Fld(Idx(Own("zs"), K), "w"), "v"), NumA("0")),
            \* the bound variable used only as an array index in one conjunct
            Bn("and", Bn(">", Idx(Own("ys"), K), NumA("0")), Bn("<", K, NumA("1"))),
            Bn("and", Bn(">", Idx(Own("ys"), K), NumA("0")), Own("p")),
            Bn("and", Fld(VarR("@A"), "b"), Bn(">", Idx(Own("ys"), K), NumA("0"))),
            Un("not", Bn("or", Bn("<", Idx(Own("ys"), K), NumA("0")), Own("p"))),
            Bn("<", Idx(Own("ys"), K), NumA("0")),
            \* bodies in which every occurrence of the variable can be folded away
            Bn("and", Own("p"), Bn("implies", Bn(">", K, NumA("0")), Bn(">", K, NumA("0")))),
            Bn(">", Idx(Own("ys"), NumA("0")), Bn("-", K, K)),
            Bn("and", Bn("=", Own("y"), NumA("2")), Bn("!=", Bn("+", K, NumA("1")), K)),
            Bn("or", Own("p"), Bn("and", Bn(">", K, NumA("0")), Un("not", Bn(">", K, NumA("0")))))}
Quants1 == {Qn(q, "k", d, b) : q \in {"forall", "exists"}, d \in Domains, b \in BodiesK}
NestBodies == {Qn(q2, "j", Own("ys"), Bn("<", J, K)) : q2 \in {"forall", "exists"}}
             \cup {Qn(q2, "j", Own("ys"), Bn("and", Bn("<", J, K), Own("p"))) : q2 \in {"forall", "exists"}}
             \cup {Qn("forall", "j", Rng("[", NumA("0"), K, "]"), Bn(">", J, NumA("0")))}
\* directly nested quantifiers whose INNER domain depends on the OUTER variable (rows: array of messages with an array ys)
NestDep == {Qn(q1, "k", Own("rows"), Qn(q2, "j", Fld(K, "ys"), b)) : q1 \in {"forall", "exists"}, q2 \in {"forall", "exists"},
               b \in {Bn("and", Bn(">", J, NumA("0")), Bn("<", J, Fld(VarR("@A"), "n"))),
                      Un("not", Bn("or", Bn("<", J, NumA("1")), Bn(">", J, Fld(VarR("@A"), "n")))),
                      Bn("and", Bn("<", J, Fld(VarR("@A"), "n")), Bn(">", J, Fld(K, "lo"))),
                      Bn("and", Own("p"), Bn("<", J, Fld(VarR("@A"), "n")))}}
Quants2 == {Qn(q, "k", d, b) : q \in {"forall", "exists"}, d \in {Own("xs"), SetOf(<<NumA("1"), NumA("2")>>)}, b \in NestBodies} \cup NestDep
QCore == {Qn(q, "k", d, b) : q \in {"forall", "exists"}, d \in {Own("xs"), SetOf(<<NumA("1"), NumA("2")>>), Rng("[", NumA("1"), NumA("0"), "]")},
                             b \in {Bn("and", Bn(">", K, NumA("0")), Bn("<", K, NumA("2"))), Bn("and", Bn(">", K, NumA("0")), Own("p")),
                                    Bn("or", Bn(">", K, NumA("0")), Own("p")), Bn(">", K, NumA("0")),
                                    Bn("and", Bn(">", K, NumA("0")), Fld(VarR("@A"), "b"))}}
LooseThenNarrow ==
  {Qn("forall", "k", d, Bn("and", Bn("in", K, SetOf(<<NumA("1"), NumA("3")>>)), Bn("<", Call(f, K), NumA("4")))) : d \in {Rng("[", NumA("0"), NumA("5"), "]"), Own("xs")}, f \in {"abs", "sqrt"}}
  \cup {Bn("and", Bn("=", r, Own("w")), Bn(">", Call(f, r), NumA("0"))) : r \in {Own("a"), Fld(VarR("@A"), "n"), VarR("@v")}, f \in {"abs", "floor"}}
  \cup {Bn("and", Bn("in", r, Own("ws")), Bn(">", Call("len", r), NumA("0"))) : r \in {Own("a")}}
QInDomain == {Qn(q, "x", SetOf(<<Qn(q2, "k", d, Bn(">", K, NumA("0"))), Own("flag")>>), Bn("or", VarR("@x"), Own("ok"))) :
                 q \in {"forall", "exists"}, q2 \in {"forall", "exists"}, d \in {Own("xs"), Fld(VarR("@A"), "ns"), SetOf(<<NumA("1"), Own("y")>>)}}
QuantExprs ==
  Quants1 \cup Quants2
  \cup {Un("not", t) : t \in Quants1} \cup QInDomain
  \* quantifiers under stacked negations and under negated disjunctions / implications
  \cup {Un("not", Un("not", t)) : t \in QCore} \cup {Un("not", Un("not", Un("not", t))) : t \in QCore}
  \cup {Un("not", Bn("or", Own("p"), Un("not", t))) : t \in QCore} \cup {Un("not", Bn("implies", Own("p"), Un("not", t))) : t \in QCore}
  \cup {Bn("and", Own("q"), Un("not", Un("not", t))) : t \in QCore}
  \cup {Bn(op, t, b) : op \in {"and", "or", "implies"}, t \in {Qn(q, "k", Own("xs"), Bn(">", K, NumA("0"))) : q \in {"forall", "exists"}},
                       b \in {Own("p"), Fld(VarR("@A"), "b"), BoolA("False"), BoolA("True")}}

(* ---- boolean structure with aliases (split_and / refactor_reference) ---- *)
AB == Fld(VarR("@A"), "b")
AC == Fld(VarR("@C"), "b")
AN == Bn(">", Fld(VarR("@A"), "n"), Own("x"))
PropAtoms == {Own("p"), Own("q"), AB, AC, AN, BoolA("True"), BoolA("False")}
Prop1 == PropAtoms \cup {Un("not", a) : a \in PropAtoms}
               \cup {Bn(op, a, b) : op \in LogicOps, a \in PropAtoms, b \in PropAtoms}
Prop2 == {Un("not", a) : a \in Prop1}
         \cup {Bn(op, a, b) : op \in LogicOps, a \in Prop1, b \in {Own("p"), AB, AN}}
         \cup {Bn(op, a, b) : op \in LogicOps, a \in {Own("q"), AB, AC}, b \in Prop1}
AliasExprs == Prop2 \cup {Un("not", a) : a \in {t \in Prop2 : t.k = "un"}}

(* ---- a this-rooted and an alias-rooted reference in every child slot of every node kind ---- *)
SlotRefs == {Own("x"), Fld(VarR("@A"), "n"), Fld(Fld(VarR("@A"), "m"), "n"), Idx(Fld(VarR("@A"), "ns"), NumA("0")), Fld(Own("m"), "n"),
             \* the substituted reference sits in an index BELOW a field access whose root is the other kind of reference
             Fld(Idx(Own("zs"), Fld(VarR("@A"), "i")), "y"), Fld(Idx(Fld(VarR("@C"), "zs"), Own("i")), "y"),
             \* ... two or more levels below an index: computed, nested and converted indices
             Idx(Own("xs"), Bn("+", Fld(VarR("@A"), "i"), NumA("1"))), Idx(Own("xs"), Call("int", Fld(VarR("@A"), "k"))),
             Idx(Own("xs"), Idx(Fld(VarR("@A"), "ys"), Fld(VarR("@A"), "i"))), Idx(Fld(VarR("@C"), "xs"), Bn("-", Own("i"), NumA("1")))}
SlotNum(r) ==
  { r, Un("-", r), Bn("+", r, NumA("1")), Bn("-", NumA("1"), r), Bn("*", r, r),
    Call("abs", r), Call("abs", Bn("+", r, NumA("1"))),
    Idx(Own("xs"), r), Idx(Own("xs"), Bn("+", r, NumA("1"))), Idx(Own("xs"), Bn("-", Bn("+", r, NumA("1")), NumA("1"))),
    Idx(Fld(VarR("@A"), "ns"), r), Idx(Own("xs"), Idx(Own("ys"), r)),
    Call("sum", SetOf(<<r, NumA("1")>>)), Call("max", Rng("[", r, NumA("3"), "]")), Call("len", Rng("[", NumA("0"), r, "]!")) }
SlotBool(r) ==
  {Bn(op, t, Own("y")) : op \in {"=", "<"}, t \in SlotNum(r)}
  \cup {Bn(">", Own("y"), t) : t \in SlotNum(r)}
  \cup { Bn("in", r, SetOf(<<NumA("1"), NumA("2")>>)), Bn("in", Own("y"), SetOf(<<r, NumA("2")>>)),
         Bn("in", Own("y"), Rng("[", r, NumA("3"), "]")), Bn("in", Own("y"), Rng("![", NumA("0"), r, "]!")),
         Bn("in", r, Own("xs")), Bn("in", r, Fld(VarR("@A"), "ns")),
         Qn("forall", "k", Own("xs"), Bn("<", K, r)), Qn("exists", "k", Fld(VarR("@A"), "ns"), Bn("<", K, r)),
         Qn("forall", "k", SetOf(<<r, NumA("1")>>), Bn("<", K, Own("y"))),
         Qn("forall", "k", Rng("[", NumA("0"), r, "]"), Bn("<", Idx(Own("xs"), K), Own("y"))),
         Un("not", Bn("<", r, Own("y"))), Bn("and", Bn("<", r, Own("y")), Own("p")),
         Bn("implies", Own("p"), Bn("=", r, NumA("1"))), Bn("iff", Bn("<", r, NumA("1")), Bn("<", Own("y"), r)) }
SlotExprs == UNION {SlotNum(r) \cup SlotBool(r) : r \in SlotRefs}

(* ---- exactly one definite type clash injected into a well-typed term (C05) ---- *)
GoodNum  == {Own("x"), NumA("1"), Bn("+", Own("x"), NumA("1")), Call("abs", Own("y"))}
GoodBool == {Own("p"), BoolA("True"), Bn("<", Own("x"), NumA("1")), Un("not", Own("q"))}
WrongForNum  == {BoolA("True"), StrA("$s"), Bn("<", Own("a"), Own("b")), Bn("and", Own("a"), Own("b")), Un("not", Own("a")),
                 SetOf(<<NumA("1")>>), Rng("[", NumA("1"), NumA("2"), "]"), Call("str", Own("a")), Call("bool", Own("a")),
                 Qn("forall", "k", Own("xs"), Bn(">", K, NumA("0")))}
WrongForBool == {NumA("1"), StrA("$s"), Bn("+", Own("a"), Own("b")), Un("-", Own("a")), Call("abs", Own("a")), Call("len", Own("xs")),
                 SetOf(<<NumA("1")>>), Rng("[", NumA("1"), NumA("2"), "]"), Call("str", Own("a"))}
WrongForPrim == {SetOf(<<NumA("1"), NumA("2")>>), Rng("[", NumA("1"), NumA("2"), "]")}
WrongForComp == {NumA("1"), StrA("$s"), BoolA("True"), Bn("+", Own("a"), Own("b")), Bn("<", Own("a"), Own("b")), Call("abs", Own("a"))}
NumOps2 == ArithOps \cup OrdOps
\* contexts that force the reference r to be a NUMBER, one per kind of slot
ForceNumber(r) == {Bn(">", r, NumA("0")), Bn(">", Bn("+", r, NumA("1")), NumA("0")), Bn(">", Un("-", r), NumA("0")), Bn(">", Call("abs", r), NumA("0")),
                   Bn("in", Own("x"), Rng("[", r, NumA("3"), "]")), Bn("in", Own("x"), Rng("![", NumA("0"), r, "]!")),
                   Bn(">", Idx(Own("xs"), r), NumA("0")), Bn(">", Call("sum", Rng("[", NumA("0"), r, "]")), NumA("0")),
                   Qn("forall", "k", Rng("[", NumA("0"), r, "]"), Bn(">", K, NumA("0")))}
ClashTerms ==
  {Bn(op, w, g) : op \in NumOps2, w \in WrongForNum, g \in {Own("x"), NumA("1")}}
  \cup {Bn(op, g, w) : op \in NumOps2, w \in WrongForNum, g \in {Own("x"), NumA("1")}}
  \cup {Bn(op, w, g) : op \in LogicOps, w \in WrongForBool, g \in {Own("p"), Bn("<", Own("x"), NumA("1"))}}
  \cup {Bn(op, g, w) : op \in LogicOps, w \in WrongForBool, g \in {Own("p"), Bn("<", Own("x"), NumA("1"))}}
  \cup {Un("-", w) : w \in WrongForNum} \cup {Un("not", w) : w \in WrongForBool}
  \cup {Bn(op, a, b) : op \in EqOps, a \in (GoodNum \ {Own("x")}) \cup {Un("-", Own("a")), Call("len", Own("xs"))},
                       b \in (GoodBool \ {Own("p")}) \cup {StrA("$s"), Call("str", Own("a")), Bn("or", Own("a"), Own("b")),
                                                           Qn("forall", "k", SetOf(<<NumA("1"), NumA("2")>>), Bn(">", K, Own("a")))}}
  \cup {Bn(op, b, a) : op \in EqOps, a \in {NumA("1"), Bn("*", Own("b"), NumA("2")), Call("abs", Own("y"))},
                       b \in {BoolA("True"), StrA("$s"), Bn("<", Own("c"), Own("d")), Un("not", Own("b"))}}
  \cup {Bn(op, w, Own("x")) : op \in EqOps, w \in WrongForPrim} \cup {Bn(op, Own("x"), w) : op \in EqOps, w \in WrongForPrim}
  \cup {Bn("in", w, SetOf(<<NumA("1")>>)) : w \in WrongForPrim} \cup {Bn("in", Own("x"), w) : w \in WrongForComp}
  \cup {Call(f, w) : f \in Fun1Num, w \in {BoolA("True"), StrA("$s"), Bn("<", Own("a"), Own("b")), SetOf(<<NumA("1")>>)}}
  \cup {Call(f, w) : f \in {"len", "sum", "prod", "max", "min"}, w \in WrongForComp}
  \cup {Call(f, w) : f \in {"bool", "int", "float", "str"}, w \in WrongForPrim}
  \cup {Bn(">", Call(f, w), NumA("0")) : f \in {"abs", "len"}, w \in {BoolA("True"), StrA("$s")}}
  \cup {Bn("in", Own("x"), Rng("[", w, NumA("2"), "]")) : w \in WrongForNum \ {Rng("[", NumA("1"), NumA("2"), "]")}}
  \cup {Bn("in", Own("x"), Rng("[", NumA("1"), w, "]!")) : w \in WrongForNum \ {Rng("[", NumA("1"), NumA("2"), "]")}}
  \cup {Bn("in", Own("x"), SetOf(<<NumA("1"), w>>)) : w \in WrongForPrim}
  \cup {Qn(q, "k", w, Bn(">", K, NumA("0"))) : q \in {"forall", "exists"}, w \in {NumA("1"), StrA("$s"), BoolA("True")}}
  \cup {Qn(q, "k", Own("xs"), w) : q \in {"forall", "exists"}, w \in {Bn("+", K, NumA("1")), Call("abs", K), Un("-", K)}}
  \cup {Bn(">", Idx(Own("xs"), w), NumA("0")) : w \in {StrA("$s"), BoolA("True"), Bn("<", Own("a"), Own("b")), SetOf(<<NumA("1")>>)}}
  \* the same reference required at two disjoint types inside one predicate
  \cup {Bn("and", a, b) : a \in {Bn(">", Own("x"), NumA("0")), Bn(">", Call("abs", Own("x")), NumA("0")), Bn("<", Bn("+", Own("x"), NumA("1")), Own("y"))},
                          b \in {Bn("=", Own("x"), StrA("$s")), Own("x"), Un("not", Own("x")), Bn("in", NumA("1"), Own("x")), Bn(">", Fld(Own("x"), "f"), NumA("0"))}}
  \cup {Bn("or", Bn("=", Fld(VarR("@A"), "n"), StrA("$s")), Bn(">", Fld(VarR("@A"), "n"), NumA("0"))),
        Bn("implies", Bn(">", Idx(Own("xs"), NumA("0")), NumA("1")), Bn("=", Own("xs"), NumA("2"))),
        Bn("and", Bn(">", Call("len", Own("z")), NumA("0")), Bn("<", Own("z"), NumA("3"))),
        Bn("and", Qn("forall", "k", Own("z"), Bn(">", K, NumA("0"))), Bn("=", Own("z"), StrA("$s"))),
        Bn("and", Bn("=", Own("x"), NumA("1")), Bn("=", Own("x"), BoolA("True")))}
  \* three occurrences of one reference: two incompatible ones separated by an occurrence in a generic position
  \cup {Bn("and", Bn("and", a, g), b) : a \in {Bn(">", r3, NumA("0")) : r3 \in {Own("x")}},
                                        g \in {Call("bool", Own("x")), Bn("in", Own("x"), SetOf(<<NumA("1"), StrA("$s")>>)), Bn("=", Own("x"), Own("w")),
                                                Bn("=", Call("str", Own("x")), StrA("$s"))},
                                        b \in {Bn("=", Own("x"), StrA("$s")), Bn("implies", Own("x"), Own("y")), Un("not", Own("x"))}}
  \cup {Bn("and", b, Bn("and", g, a)) : a \in {Bn("<", Fld(VarR("@A"), "n"), NumA("0"))},
                                        g \in {Call("bool", Fld(VarR("@A"), "n")), Bn("=", Fld(VarR("@A"), "n"), Own("w"))},
                                        b \in {Bn("=", Fld(VarR("@A"), "n"), StrA("$s")), Fld(VarR("@A"), "n")}}
  \* the bound variable of a literal domain used at a type disjoint from the elements (also after a loosely typed use)
  \cup {Qn(q, "k", d, b) : q \in {"forall", "exists"},
                            d \in {SetOf(<<NumA("1"), NumA("2")>>), Rng("[", NumA("1"), NumA("3"), "]")},
                            b \in {K, Un("not", K), Bn("or", Bn("=", K, Own("a")), K), Bn("implies", Bn("=", K, Own("a")), K),
                                   Bn("and", Bn("in", K, Own("ys")), Un("not", K)), Bn("=", K, StrA("$s")),
                                   Bn("and", Bn("=", K, Own("a")), Bn("=", K, StrA("$s")))}}
  \cup {Qn("forall", "k", SetOf(<<StrA("$s"), StrA("$t")>>), b) :
                            b \in {Bn(">", K, NumA("0")), Bn("or", Bn("=", K, Own("a")), Bn(">", Bn("+", K, NumA("1")), NumA("0"))), Un("not", K)}}
  \* ... and of a set literal whose members are COMPUTED (operator / function results, whose type is exact), alone or next to
  \* literals and references
  \cup {Qn(q, "k", d, b) : q \in {"forall", "exists"},
                            d \in {SetOf(<<Bn("+", Own("n"), NumA("1")), NumA("2")>>), SetOf(<<Un("-", Own("n"))>>), SetOf(<<Call("len", Own("xs")), NumA("3")>>),
                                   SetOf(<<Bn("*", Own("n"), Own("m"))>>)},
                            b \in {Bn("=", K, StrA("$s")), Un("not", K), Bn("and", Bn("=", K, Own("a")), K)}}
  \cup {Qn(q, "k", SetOf(<<Bn("<", Own("a"), Own("b"))>>), b) : q \in {"forall", "exists"},
                            b \in {Bn(">", Idx(Own("ys"), K), NumA("0")), Bn(">", K, NumA("0")), Bn("=", K, StrA("$s"))}}
  \* the argument of an overloaded function (message | 4 numbers ; compound | numbers) reused at number type
  \cup {Bn("and", Bn(">", Call(f, Own("q")), NumA("0")), Bn("=", Own("q"), NumA("1"))) : f \in {"roll", "pitch", "yaw", "max", "min", "gcd"}}
  \cup {Bn("or", Bn(">", Bn("+", Own("q"), NumA("1")), NumA("0")), Bn("<", Call(f, Own("q")), NumA("3"))) : f \in {"yaw", "min", "gcd", "len", "sum"}}
  \* one reference forced to a type by EVERY kind of slot, and used elsewhere in the predicate at a disjoint type
  \cup {Bn(op, force, use) : op \in {"and", "or"}, force \in ForceNumber(Own("a")), use \in {Own("a"), Un("not", Own("a")), Bn("=", Own("a"), StrA("$s")),
                                                                                            Bn(">", Fld(Own("a"), "f"), NumA("0")), Bn("in", NumA("1"), Own("a"))}}
  \cup {Bn("and", use, force) : force \in ForceNumber(Fld(Own("a"), "b")), use \in {Fld(Own("a"), "b"), Bn("=", Fld(Own("a"), "b"), StrA("$s"))}}
  \cup {Bn("and", force, use) : force \in {Bn(">", Idx(Own("a"), NumA("0")), NumA("1")), Qn("forall", "k", Own("a"), Bn(">", K, NumA("0"))),
                                           Bn(">", Call("len", Own("a")), NumA("0")), Bn("in", NumA("1"), Own("a"))},
                              use \in {Bn(">", Own("a"), NumA("0")), Own("a"), Bn("=", Own("a"), StrA("$s")), Bn(">", Fld(Own("a"), "f"), NumA("0"))}}
  \cup {Bn("and", Bn(">", Fld(Own("a"), "f"), NumA("0")), use) : use \in {Bn(">", Own("a"), NumA("0")), Own("a"), Bn("=", Own("a"), StrA("$s")), Bn(">", Idx(Own("a"), NumA("0")), NumA("1"))}}
  \* nested quantifiers: the OUTER variable used outside and inside the nested quantifier at incompatible types
  \cup {Qn("forall", "i", d, Bn("and", Bn(">", VarR("@i"), NumA("0")), Qn("exists", "j", Own("ys"), Bn("and", Bn(">", VarR("@j"), NumA("0")), use)))) :
            d \in {Own("xs"), Fld(VarR("@A"), "xs")}, use \in {Bn("=", VarR("@i"), StrA("$s")), VarR("@i"), Bn("=", Fld(VarR("@i"), "name"), StrA("$s"))}}
  \* the variable of a LITERAL domain used at a disjoint type only inside the condition of a nested quantifier
  \cup {Qn(q, "i", SetOf(<<StrA("$s"), StrA("$t")>>), Qn(q2, "j", Own("ys"), b)) : q \in {"forall", "exists"}, q2 \in {"forall", "exists"},
            b \in {Bn(">", VarR("@j"), VarR("@i")), Bn("and", Bn(">", VarR("@j"), NumA("0")), Bn("<", VarR("@i"), NumA("1")))}}
  \cup {Qn(q, "i", d, Qn(q2, "j", Own("ys"), b)) : q \in {"forall", "exists"}, q2 \in {"forall", "exists"},
            d \in {Rng("[", NumA("1"), NumA("3"), "]"), SetOf(<<NumA("1"), NumA("2")>>)},
            b \in {Bn("and", Bn(">", VarR("@j"), NumA("0")), VarR("@i")), Bn(">", Fld(VarR("@i"), "w"), VarR("@j")),
                   Bn("or", Bn("=", VarR("@i"), StrA("$s")), Bn(">", VarR("@j"), NumA("0")))}}
  \* a reference forced to be PRIMITIVE (left of `in`, operand of `=` with a literal, set element) and used as a message / an array
  \cup {Bn(o, force, use) : o \in {"and", "or"},
                            force \in {Bn("in", Own("a"), Own("xs")), Bn("in", Own("a"), SetOf(<<NumA("1"), StrA("$s")>>)), Bn("in", Own("a"), Rng("[", NumA("0"), NumA("1"), "]")),
                                       Bn("=", Own("a"), StrA("$s")), Bn("in", NumA("1"), SetOf(<<Own("a"), NumA("2")>>))},
                            use \in {Bn(">", Fld(Own("a"), "f"), NumA("0")), Bn(">", Idx(Own("a"), NumA("0")), NumA("1")), Bn(">", Call("yaw", Own("a")), NumA("0"))}}
  \* the variable of a literal range / set used as the DOMAIN of a nested quantifier
  \cup {Qn(q, "i", d, Qn(q2, "j", VarR("@i"), Bn(">", VarR("@j"), NumA("0")))) : q \in {"forall", "exists"}, q2 \in {"forall", "exists"},
            d \in {Rng("[", NumA("0"), NumA("3"), "]"), SetOf(<<StrA("$s"), StrA("$t")>>)}}
  \* top level of a predicate is not boolean
  \cup {Bn("+", Own("x"), NumA("1")), NumA("1"), StrA("$s"), SetOf(<<NumA("1"), NumA("2")>>), Call("abs", Own("x")),
        Rng("[", NumA("1"), NumA("2"), "]"), Un("-", Own("x")), Call("len", Own("xs"))}

(* ---- random deep typed terms (RandomElement; reproducible through TLC's -seed) ---- *)
RNumAtom == RandomElement(NumAtomsW \cup {NumA("2"), NumA("1.5"), Own("z")})
RBoolAtom == RandomElement(BoolAtomsW)
QVar(d) == "v" \o ToString(d)
RECURSIVE RNum(_), RBool(_), RComp(_)
RComp(d) ==
  LET k == RandomElement(1..6) IN
  CASE k = 1 -> SetOf(<<RNum(d)>>)
    [] k = 2 -> SetOf(<<RNum(d), RNum(d)>>)
    [] k = 3 -> SetOf(<<RNum(d), NumA("1"), RNum(d)>>)
    [] k = 4 -> Rng(RandomElement({"[", "!["}), RNum(d), RNum(d), RandomElement({"]", "]!"}))
    [] k = 5 -> Own("xs")
    [] OTHER -> Fld(VarR("@A"), "ns")
RNum(d) ==
  IF d = 0 THEN RNumAtom
  ELSE LET k == RandomElement(1..10) IN
       CASE k <= 4 -> Bn(RandomElement(ArithOps), RNum(d - 1), RNum(d - 1))
         [] k = 5 -> Un("-", RNum(d - 1))
         [] k = 6 -> Call(RandomElement({"abs", "floor", "ceil", "int", "float", "sqrt"}), RNum(d - 1))
         [] k = 7 -> Call(RandomElement({"len", "sum", "prod", "max", "min"}), RComp(d - 1))
         [] k = 8 -> Idx(Own("xs"), RNum(d - 1))
         [] OTHER -> RNumAtom
RBool(d) ==
  IF d = 0 THEN RBoolAtom
  ELSE LET k == RandomElement(1..12) IN
       CASE k <= 3 -> Bn(RandomElement(LogicOps), RBool(d - 1), RBool(d - 1))
         [] k = 4 -> Un("not", RBool(d - 1))
         [] k <= 7 -> Bn(RandomElement(EqOps \cup OrdOps), RNum(d - 1), RNum(d - 1))
         [] k = 8 -> Bn(RandomElement(EqOps), RBool(d - 1), RBool(d - 1))
         [] k = 9 -> Bn("in", RNum(d - 1), RComp(d - 1))
         [] k = 10 -> Qn(RandomElement({"forall", "exists"}), QVar(d), RComp(d - 1),
                         Bn(RandomElement({"<", "=", ">="}), VarR("@" \o QVar(d)), RNum(d - 1)))
         [] k = 11 -> Qn(RandomElement({"forall", "exists"}), QVar(d), RComp(d - 1),
                         Bn(RandomElement({"and", "or", "implies"}),
                            Bn(RandomElement({"<", "!="}), VarR("@" \o QVar(d)), RNum(d - 1)), RBool(d - 1)))
         [] OTHER -> RBoolAtom
(* ---- the same element reached through differently written (but equal) index or operand spellings, used twice: what a
   ---- rewriting function folds may make two references coincide that the parser kept apart ---- *)
IdxPairs == {<<Bn("+", NumA("1"), NumA("1")), NumA("2")>>, <<Bn("-", NumA("3"), NumA("3")), NumA("0")>>,
             <<Bn("+", Own("k"), NumA("0")), Own("k")>>, <<Bn("+", NumA("1"), Own("k")), Bn("+", Own("k"), NumA("1"))>>,
             <<Bn("*", NumA("1"), Own("k")), Own("k")>>, <<NumA("2"), NumA("2")>>}
IdxCtx(r) == {Bn("=", r, StrA("$s")), Bn(">", r, NumA("0")), Bn("=", r, Own("y")), Un("not", r), Bn("in", r, SetOf(<<NumA("1"), NumA("2")>>))}
FoldIdx == UNION {{Bn(op, c1, c2) : op \in {"and", "or"}, c1 \in IdxCtx(Idx(a, pr[1])), c2 \in IdxCtx(Idx(a, pr[2]))}
                   : pr \in IdxPairs, a \in {Own("xs"), Fld(VarR("@A"), "ns")}}
(* ---- chains of constant operations that cancel exactly, compared with their own base ---- *)
Neg(c) == Un("-", c)
CancelOf(e) == LET c == NumA("2") d == NumA("1") IN
  {Bn("-", Bn("-", e, c), Neg(c)), Bn("-", Bn("-", e, Neg(c)), c), Bn("-", Bn("+", e, c), c), Bn("+", Bn("-", e, c), c),
   Bn("+", Bn("+", e, c), Neg(c)), Bn("-", Bn("-", e, d), Neg(d)), Bn("/", Bn("*", e, c), c), Bn("*", Bn("/", e, c), c),
   Bn("*", e, d), Bn("-", e, NumA("0")), Bn("+", NumA("0"), e), Neg(Neg(e)), Bn("**", e, d), Bn("-", Bn("-", e, c), c),
   Bn("+", Bn("-", e, c), d), Bn("-", Bn("+", e, NumA("3")), d)}
CancelBases == {Fld(VarR("@A"), "n"), Bn("*", Own("x"), Own("y")), Idx(Own("xs"), NumA("0")), Own("x"), Call("abs", Own("x"))}
Cancel == UNION {{Bn(op, t, e) : op \in {"=", "!=", "<", ">="}, t \in CancelOf(e)} : e \in CancelBases}
          \cup UNION {{Bn(op, e, t) : op \in {"=", ">="}, t \in CancelOf(e)} : e \in CancelBases}
          \cup UNION {{Bn(">", t, NumA("0")) : t \in CancelOf(e)} : e \in CancelBases}
(* ---- three-operand conjunctions / disjunctions of literals and two-literal clauses over two atoms: every way in which the
   ---- operands of a flattened chain can contradict, subsume or resolve one another ---- *)
Lits == {Own("p"), Un("not", Own("p")), Fld(VarR("@A"), "b"), Un("not", Fld(VarR("@A"), "b"))}
Clauses == {Bn(o, l1, l2) : o \in {"or", "and", "implies"}, l1 \in Lits, l2 \in Lits}
Chain3(o, x, y, z) == Bn(o, Bn(o, x, y), z)
Resolve == UNION {{Chain3(o, l1, l2, c), Chain3(o, l1, c, l2), Chain3(o, c, l1, l2), Bn(o, l1, Bn(o, l2, c))} :
                      o \in {"and", "or"}, l1 \in Lits, l2 \in Lits, c \in Clauses}
(* ---- negations of two-level propositional terms (what a splitting or refactoring rule sees under a `not`) ---- *)
PAtoms == {Own("p"), Own("q"), Fld(VarR("@A"), "b")}
PLevel1 == PAtoms \cup {Bn(o, a, b) : o \in LogicOps, a \in PAtoms, b \in PAtoms} \cup {Un("not", a) : a \in PAtoms}
NegBool == {Un("not", Bn(o, a, b)) : o \in LogicOps, a \in PLevel1, b \in PAtoms}
           \cup {Un("not", Bn(o, a, b)) : o \in LogicOps, a \in PAtoms, b \in PLevel1}
           \cup {Qn("forall", "k", Own("xs"), Un("not", Bn("implies", Bn(o, Bn(">", K, NumA("0")), a), b))) : o \in LogicOps, a \in PAtoms, b \in PAtoms}
(* ---- comparisons of a literal with a linear term built from two multiplicative layers (sign flips when isolating x) ---- *)
LinK == {NumA("2"), NumA("3"), Un("-", NumA("2")), Un("-", NumA("3"))}
Lin1 == {Bn(m, Own("x"), k) : m \in {"*", "/"}, k \in LinK}
Lin2 == {Bn(m, Bn("+", l, b), k) : m \in {"*", "/"}, l \in Lin1, b \in {NumA("0"), NumA("1")}, k \in LinK}
        \cup {Bn(m, l, k) : m \in {"*", "/"}, l \in Lin1, k \in LinK}
LinCmp == {Bn(op, l, c) : op \in {"<", "<=", ">", ">=", "=", "!="}, l \in Lin2, c \in {NumA("10"), NumA("6"), Un("-", NumA("6"))}}
          \cup {Bn(op, c, l) : op \in {"<", ">="}, l \in Lin2, c \in {NumA("6")}}
(* ---- a BARE alias (the message itself) as a function argument, next to ordinary references through the same / another alias ---- *)
BareAlias == {Bn(o, Bn(">", Call(f, VarR(v1)), NumA("0")), r) : o \in {"and", "or"}, f \in {"yaw", "roll"}, v1 \in {"@A", "@C"},
                 r \in {Bn(">", Fld(VarR("@A"), "n"), Own("x")), Bn("<", Own("x"), NumA("1")), Bn("=", Call("pitch", VarR("@A")), Fld(VarR("@C"), "n"))}}
(* ---- powers of powers with literal exponents (even inner exponent, exponent 0.5 outside) ---- *)
PowPow == {Bn(c, Bn("**", Bn("**", b, m), n), r) : c \in {"=", "<", ">="}, b \in {Own("x"), Fld(VarR("@A"), "n"), Bn("-", Own("x"), NumA("1"))},
              m \in {NumA("2"), NumA("4"), NumA("3")}, n \in {NumA("0.5"), NumA("2"), Un("-", NumA("1"))}, r \in {Own("y"), NumA("1")}}
(* ---- substitution under a binder of the same name: a set element that mentions a name which a quantifier in the body binds ---- *)
Capture == {Qn(q, "i", SetOf(<<Fld(VarR("@k"), "lo"), NumA("0")>>), Qn(q2, "k", Rng("[", VarR("@i"), NumA("9"), "]"), Bn(">", Idx(Own("xs"), K), NumA("0")))) : q \in {"forall", "exists"}, q2 \in {"forall", "exists"}}
           \cup {Qn(q, "b", SetOf(<<Qn("exists", "k", Own("xs"), Bn(">", K, NumA("0"))), Own("ok")>>), Qn("forall", "k", Own("ys"), Bn("or", Bn("<", K, NumA("9")), VarR("@b")))) : q \in {"forall", "exists"}}
           \cup {Un("not", Qn("exists", "i", SetOf(<<Fld(VarR("@k"), "lo"), Own("x")>>), Qn("forall", "k", Own("xs"), Bn(">", K, VarR("@i")))))}
(* ---- membership tests whose left side has another type than the members (`in` asks nothing of its left operand; the test is
        simply false), with sets that have ONE member - as written, after duplicates collapse, after the members fold ---- *)
OneSets == {SetOf(<<NumA("1")>>), SetOf(<<NumA("2"), NumA("2")>>), SetOf(<<Bn("+", NumA("1"), NumA("1"))>>), SetOf(<<BoolA("True")>>), SetOf(<<StrA("$s")>>),
            SetOf(<<Own("y")>>), SetOf(<<NumA("1"), Bn("-", NumA("2"), NumA("1"))>>)}
MixIn == {Bn("and", Bn("=", Own("s"), StrA("$s")), Bn("in", Own("s"), c)) : c \in OneSets}
         \cup {Bn("and", Bn("in", Own("p"), c), Bn(">", Own("p"), NumA("3"))) : c \in OneSets}
         \cup {Bn("or", Bn("in", Own("p"), c), Un("not", Own("p"))) : c \in OneSets}
         \cup {Bn("in", Bn(">", Own("x"), NumA("1")), c) : c \in OneSets}
         \cup {Bn("in", a, c) : a \in {Own("x"), NumA("1"), StrA("$s"), BoolA("True"), Call("len", Own("xs")), Call("str", Own("x"))}, c \in OneSets}
         \cup {Un("not", Bn("in", Own("x"), c)) : c \in OneSets}
(* ---- a connective between two terms that SHARE some of their conjuncts / disjuncts (what absorption, weakening and
        "same operand" shortcuts look at), the shared atom also in its mirrored spelling ---- *)
ShAtoms == <<Own("p"), Own("q"), Fld(VarR("@A"), "b"), Bn(">", Own("x"), NumA("1"))>>
ShTerms == {ShAtoms[i] : i \in 1..4} \cup {Bn("<", NumA("1"), Own("x"))}
           \cup UNION {{Bn(c, ShAtoms[i], ShAtoms[j]) : c \in {"and", "or"}, j \in (i+1)..4} : i \in 1..3}
Shared == {Bn(o, s1, t1) : o \in LogicOps, s1 \in ShTerms, t1 \in ShTerms}
RandTerms == {IF i % 3 = 0 THEN RNum(RandDepth) ELSE RBool(RandDepth) : i \in 1..RandN}

Members ==
  CASE Family = "num2"    -> Num2
    [] Family = "bool2"   -> Bool2
    [] Family = "num22"   -> Num22
    [] Family = "cmp11"   -> Cmp11
    [] Family = "cmpbool" -> CmpBool
    [] Family = "bool22"  -> Bool22
    [] Family = "num1w"   -> Num1(NumAtomsW)
    [] Family = "bool1w"  -> Bool1(NumAtomsW, BoolAtomsW)
    [] Family = "funs"    -> FunExprs
    [] Family = "incl"    -> Inclusions
    [] Family = "quants"  -> QuantExprs
    [] Family = "alias"   -> AliasExprs
    [] Family = "slots"   -> SlotExprs
    [] Family = "clash"   -> ClashTerms
    [] Family = "rand"    -> RandTerms
    [] Family = "qdom"    -> QInDomain
    [] Family = "loose"   -> LooseThenNarrow
    [] Family = "foldidx" -> FoldIdx
    [] Family = "cancel"  -> Cancel
    [] Family = "resolve" -> Resolve
    [] Family = "negbool" -> NegBool
    [] Family = "lincmp"  -> LinCmp
    [] Family = "barealias" -> BareAlias
    [] Family = "powpow"  -> PowPow
    [] Family = "capture" -> Capture
    [] Family = "mixin"   -> MixIn
    [] Family = "shared"  -> Shared
    [] OTHER -> {}

TInit == cst \in Members
TNext == UNCHANGED cst
TSpec == TInit /\ [][TNext]_cst
=============================================================================
