------------------------------- MODULE HplTypedGen -------------------------------
(***************************************************************************)
(* Type-directed families of concrete-syntax trees (well-typed by           *)
(* construction), built on the node kinds of HplGrammar so that Tokens and  *)
(* Ast apply.  Every family is a finite set enumerated completely by TLC:   *)
(* the initial states of the instance are the members of the family named   *)
(* by the constant Family, and Emit prints each of them.                    *)
(* Used as input space for C03, C08, C09, C10, C13, C14, C16.                *)
(***************************************************************************)
EXTENDS HplGrammar

CONSTANT Family

Own(n)     == [k |-> "own", name |-> n]
NumA(t)    == [k |-> "atom", c |-> "num", tok |-> t]
BoolA(t)   == [k |-> "atom", c |-> "bool", tok |-> t]
StrA(t)    == [k |-> "atom", c |-> "str", tok |-> t]
VarR(v)    == [k |-> "var", tok |-> v]
Fld(r, f)  == [k |-> "fld", ref |-> r, name |-> f]
Idx(r, i)  == [k |-> "idx", ref |-> r, i |-> i]
Call(f, a) == [k |-> "call", f |-> f, a |-> a]
SetOf(es)  == [k |-> "set", es |-> es]
Rng(lb, lo, hi, rb) == [k |-> "range", lb |-> lb, rb |-> rb, lo |-> lo, hi |-> hi]
Atomic(t)  == t.k \in {"own", "var", "atom", "fld", "idx", "call", "set", "range", "paren"}
P(t)       == IF Atomic(t) THEN t ELSE [k |-> "paren", a |-> t]
Bn(op, l, r) == [k |-> "bin", op |-> op, l |-> P(l), r |-> P(r)]
Un(op, a)  == [k |-> "un", op |-> op, a |-> P(a)]
Qn(q, v, d, b) == [k |-> "quant", q |-> q, v |-> v, dom |-> d, body |-> P(b)]

(* ---- atoms ---- *)
NumAtoms  == {Own("x"), Own("y"), NumA("0"), NumA("1")}
NumAtomsW == NumAtoms \cup {NumA("2"), Fld(VarR("@A"), "n"), Idx(Own("xs"), NumA("0"))}
BoolAtoms == {Own("p"), BoolA("True")}
BoolAtomsW == BoolAtoms \cup {Own("q"), BoolA("False"), Fld(VarR("@A"), "b")}

(* ---- depth 1 ---- *)
Num1(A) == A \cup {Un("-", a) : a \in A} \cup {Bn(op, a, b) : op \in ArithOps, a \in A, b \in A}
Bool1(NA, BA) ==
  BA \cup {Un("not", a) : a \in BA}
     \cup {Bn(op, a, b) : op \in LogicOps, a \in BA, b \in BA}
     \cup {Bn(op, a, b) : op \in EqOps \cup OrdOps, a \in NA, b \in NA}
     \cup {Bn(op, a, b) : op \in EqOps, a \in BA, b \in BA}

(* ---- depth 2: one operand of depth <= 1, the other an atom (both orders) ---- *)
Num2 == LET A == NumAtoms N1 == Num1(A) IN
  {Un("-", a) : a \in N1}
  \cup {Bn(op, a, b) : op \in ArithOps, a \in N1, b \in A}
  \cup {Bn(op, a, b) : op \in ArithOps, a \in A, b \in N1}
Bool2 == LET NA == NumAtoms BA == BoolAtoms N1 == Num1(NA) B1 == Bool1(NA, BA) IN
  {Un("not", a) : a \in B1}
  \cup {Bn(op, a, b) : op \in LogicOps, a \in B1, b \in BA}
  \cup {Bn(op, a, b) : op \in LogicOps, a \in BA, b \in B1}
  \cup {Bn(op, a, b) : op \in EqOps \cup OrdOps, a \in N1, b \in NA}
  \cup {Bn(op, a, b) : op \in EqOps \cup OrdOps, a \in NA, b \in N1}
  \cup {Bn(op, a, b) : op \in EqOps, a \in B1, b \in BA}

(* ---- both operands of depth 1 over a tiny atom set (associativity / rotation rules) ---- *)
TinyNum  == {Own("x"), NumA("2"), Fld(VarR("@A"), "n")}
TinyBool == {Own("p"), Fld(VarR("@A"), "b")}
Num22 == LET N1 == {Bn(op, a, b) : op \in ArithOps, a \in TinyNum, b \in TinyNum} IN
  {Bn(op, a, b) : op \in ArithOps, a \in N1, b \in N1}
Bool22 == LET B1 == {Bn(op, a, b) : op \in LogicOps, a \in TinyBool, b \in TinyBool}
                    \cup {Un("not", a) : a \in TinyBool}
                    \cup {Bn(op, a, b) : op \in {"=", "<"}, a \in TinyNum, b \in TinyNum} IN
  {Bn(op, a, b) : op \in LogicOps \cup {"="}, a \in B1, b \in B1}

(* ---- comparisons between two depth-1 numeric terms (sign / inverse-operator rules) ---- *)
CmpAtoms == {Own("x"), Own("y"), NumA("1")}
Cmp11 == LET N1 == Num1(CmpAtoms) IN {Bn(op, a, b) : op \in EqOps \cup OrdOps, a \in N1, b \in N1}

(* ---- compound values and functions ---- *)
NumArgs == {NumA("0"), NumA("1"), NumA("2"), Un("-", NumA("1")), NumA("1.5"), Own("x"),
            Bn("+", Own("x"), NumA("1")), Bn("-", NumA("3"), NumA("1"))}
Sets == {SetOf(<<NumA("1")>>), SetOf(<<NumA("1"), NumA("2")>>), SetOf(<<NumA("2"), NumA("2")>>),
         SetOf(<<Own("x")>>), SetOf(<<Own("x"), Own("y")>>), SetOf(<<Own("x"), NumA("1")>>),
         SetOf(<<NumA("1"), Own("x"), NumA("3")>>), SetOf(<<Own("x"), Own("x")>>),
         SetOf(<<Bn("+", NumA("1"), NumA("1")), NumA("2")>>), SetOf(<<NumA("0"), Own("x")>>)}
Ranges == {Rng(lb, lo, hi, rb) : lb \in {"[", "!["}, rb \in {"]", "]!"},
                                 lo \in {NumA("1"), NumA("0")}, hi \in {NumA("3"), NumA("1")}}
          \cup {Rng("[", NumA("3"), NumA("1"), "]"), Rng("[", Own("x"), NumA("3"), "]"),
                Rng("![", NumA("1"), Own("y"), "]!"), Rng("[", Own("x"), Own("y"), "]"),
                Rng("[", NumA("1.5"), NumA("3"), "]"), Rng("[", Un("-", NumA("1")), NumA("1"), "]")}
Compounds == Sets \cup Ranges \cup {Own("xs")}
Fun1Num == {"abs", "sqrt", "ceil", "floor", "sin", "cos", "tan", "asin", "acos", "atan", "deg", "rad"}
Calls ==
  {Call(f, a) : f \in Fun1Num, a \in NumArgs}
  \cup {Call(f, a) : f \in {"bool", "int", "float", "str"}, a \in NumArgs \cup {BoolA("True"), Own("p"), StrA("$s")}}
  \cup {Call(f, a) : f \in {"len", "sum", "prod", "max", "min"}, a \in Compounds}
  \cup {Call("len", StrA("$s"))}
FunExprs ==
  Calls \cup {Bn(op, c, b) : op \in {"=", "<", "+"}, c \in Calls \ {Call(f, a) : f \in {"bool", "str"}, a \in NumArgs \cup {BoolA("True"), Own("p"), StrA("$s")}}, b \in {Own("y"), NumA("2")}}
Inclusions ==
  {Bn("in", a, c) : a \in {Own("x"), NumA("1"), NumA("2"), Bn("+", Own("x"), NumA("1"))}, c \in Compounds}
  \cup {Un("not", Bn("in", a, c)) : a \in {Own("x"), NumA("3")}, c \in Ranges}
  \cup {c : c \in Sets \cup Ranges}

(* ---- quantifiers ---- *)
K == VarR("@k")
J == VarR("@j")
Domains == {Own("xs"), SetOf(<<NumA("1"), NumA("2")>>), SetOf(<<Own("x"), NumA("0")>>),
            Rng("[", NumA("0"), NumA("2"), "]"), Rng("[", NumA("1"), NumA("0"), "]"), Rng("![", Own("x"), Own("y"), "]"),
            Fld(VarR("@A"), "ns")}
BodiesK == {Bn(">", K, NumA("0")), Bn("=", K, Own("x")), Bn("<", K, Fld(VarR("@A"), "n")),
            Bn("and", Bn(">", K, NumA("0")), Own("p")), Bn("and", Own("p"), Bn(">", K, NumA("0"))),
            Bn("and", Bn(">", K, NumA("0")), Bn("<", K, NumA("2"))),
            Bn("and", Bn(">", K, NumA("0")), Fld(VarR("@A"), "b")),
            Bn("or", Bn(">", K, NumA("0")), Own("p")),
            Bn("implies", Own("p"), Bn(">", K, NumA("0"))),
            Un("not", Bn("or", Bn(">", K, NumA("0")), Own("p"))),
            Un("not", Bn("or", Bn("<", K, Fld(VarR("@A"), "n")), Own("p"))),
            Un("not", Bn("implies", Bn(">", K, NumA("0")), Own("p"))),
            Un("not", Un("not", Bn(">", K, NumA("0")))),
            Bn("in", K, SetOf(<<NumA("1")>>)),
            Bn("and", Bn("and", Own("p"), Bn(">", K, NumA("0"))), Own("q"))}
Quants1 == {Qn(q, "k", d, b) : q \in {"forall", "exists"}, d \in Domains, b \in BodiesK}
NestBodies == {Qn(q2, "j", Own("ys"), Bn("<", J, K)) : q2 \in {"forall", "exists"}}
             \cup {Qn(q2, "j", Own("ys"), Bn("and", Bn("<", J, K), Own("p"))) : q2 \in {"forall", "exists"}}
             \cup {Qn("forall", "j", Rng("[", NumA("0"), K, "]"), Bn(">", J, NumA("0")))}
Quants2 == {Qn(q, "k", d, b) : q \in {"forall", "exists"}, d \in {Own("xs"), SetOf(<<NumA("1"), NumA("2")>>)}, b \in NestBodies}
QuantExprs ==
  Quants1 \cup Quants2
  \cup {Un("not", t) : t \in Quants1}
  \cup {Bn(op, t, b) : op \in {"and", "or", "implies"}, t \in {Qn(q, "k", Own("xs"), Bn(">", K, NumA("0"))) : q \in {"forall", "exists"}},
                       b \in {Own("p"), Fld(VarR("@A"), "b"), BoolA("False"), BoolA("True")}}

(* ---- boolean structure with aliases (split_and / refactor_reference) ---- *)
AB == Fld(VarR("@A"), "b")
AC == Fld(VarR("@C"), "b")
AN == Bn(">", Fld(VarR("@A"), "n"), Own("x"))
PropAtoms == {Own("p"), Own("q"), AB, AC, AN, BoolA("True"), BoolA("False")}
Prop1 == PropAtoms \cup {Un("not", a) : a \in PropAtoms}
               \cup {Bn(op, a, b) : op \in LogicOps, a \in PropAtoms, b \in PropAtoms}
Prop2 == {Un("not", a) : a \in Prop1}
         \cup {Bn(op, a, b) : op \in LogicOps, a \in Prop1, b \in {Own("p"), AB, AN}}
         \cup {Bn(op, a, b) : op \in LogicOps, a \in {Own("q"), AB, AC}, b \in Prop1}
AliasExprs == Prop2 \cup {Un("not", a) : a \in {t \in Prop2 : t.k = "un"}}

(* ---- a this-rooted and an alias-rooted reference in every child slot of every node kind ---- *)
SlotRefs == {Own("x"), Fld(VarR("@A"), "n"), Fld(Fld(VarR("@A"), "m"), "n"), Idx(Fld(VarR("@A"), "ns"), NumA("0")), Fld(Own("m"), "n")}
SlotNum(r) ==
  { r, Un("-", r), Bn("+", r, NumA("1")), Bn("-", NumA("1"), r), Bn("*", r, r),
    Call("abs", r), Call("abs", Bn("+", r, NumA("1"))),
    Idx(Own("xs"), r), Idx(Own("xs"), Bn("+", r, NumA("1"))), Idx(Own("xs"), Bn("-", Bn("+", r, NumA("1")), NumA("1"))),
    Idx(Fld(VarR("@A"), "ns"), r), Idx(Own("xs"), Idx(Own("ys"), r)),
    Call("sum", SetOf(<<r, NumA("1")>>)), Call("max", Rng("[", r, NumA("3"), "]")), Call("len", Rng("[", NumA("0"), r, "]!")) }
SlotBool(r) ==
  {Bn(op, t, Own("y")) : op \in {"=", "<"}, t \in SlotNum(r)}
  \cup {Bn(">", Own("y"), t) : t \in SlotNum(r)}
  \cup { Bn("in", r, SetOf(<<NumA("1"), NumA("2")>>)), Bn("in", Own("y"), SetOf(<<r, NumA("2")>>)),
         Bn("in", Own("y"), Rng("[", r, NumA("3"), "]")), Bn("in", Own("y"), Rng("![", NumA("0"), r, "]!")),
         Bn("in", r, Own("xs")), Bn("in", r, Fld(VarR("@A"), "ns")),
         Qn("forall", "k", Own("xs"), Bn("<", K, r)), Qn("exists", "k", Fld(VarR("@A"), "ns"), Bn("<", K, r)),
         Qn("forall", "k", SetOf(<<r, NumA("1")>>), Bn("<", K, Own("y"))),
         Qn("forall", "k", Rng("[", NumA("0"), r, "]"), Bn("<", Idx(Own("xs"), K), Own("y"))),
         Un("not", Bn("<", r, Own("y"))), Bn("and", Bn("<", r, Own("y")), Own("p")),
         Bn("implies", Own("p"), Bn("=", r, NumA("1"))), Bn("iff", Bn("<", r, NumA("1")), Bn("<", Own("y"), r)) }
SlotExprs == UNION {SlotNum(r) \cup SlotBool(r) : r \in SlotRefs}

Members ==
  CASE Family = "num2"    -> Num2
    [] Family = "bool2"   -> Bool2
    [] Family = "num22"   -> Num22
    [] Family = "cmp11"   -> Cmp11
    [] Family = "bool22"  -> Bool22
    [] Family = "num1w"   -> Num1(NumAtomsW)
    [] Family = "bool1w"  -> Bool1(NumAtomsW, BoolAtomsW)
    [] Family = "funs"    -> FunExprs
    [] Family = "incl"    -> Inclusions
    [] Family = "quants"  -> QuantExprs
    [] Family = "alias"   -> AliasExprs
    [] Family = "slots"   -> SlotExprs
    [] OTHER -> {}

TInit == cst \in Members
TNext == UNCHANGED cst
TSpec == TInit /\ [][TNext]_cst
=============================================================================
