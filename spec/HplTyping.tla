---------------------------------- MODULE HplTyping ----------------------------------
(***************************************************************************)
(* Message schemas and exact schema checking of references (C17; anchors:   *)
(* hpl.types, the type_check_references methods of the AST).                 *)
(* A type token is a record:                                                 *)
(*   [k |-> "msg", name, fields: [fname -> token], constants: [cname -> token]]*)
(*   [k |-> "arr", name, sub: token, len: Int]     (len = -1: variable length)*)
(*   [k |-> "prim", name, type: base type name]                               *)
(***************************************************************************)
EXTENDS HplAst, Integers

Err(kind) == [k |-> "err", kind |-> kind]
IsErr(t) == t.k = "err"

TokType(t) == IF t.k = "msg" THEN "MESSAGE" ELSE IF t.k = "arr" THEN "ARRAY" ELSE t.type

ContainsName(t, n) == n \in DOMAIN t.fields \/ n \in DOMAIN t.constants
TypeOfName(t, n) == IF n \in DOMAIN t.fields THEN t.fields[n] ELSE t.constants[n]

\* does the literal index node idx lie inside an array token?
IndexInBounds(t, idx) ==
  \/ t.len < 0
  \/ idx.cls # "HplLiteral"
  \/ (idx.value[1] \notin {"nan", "inf"}                      \* NAN / INF are literal indices inside no fixed array
        /\ (idx.value[1] # "n" \/ idx.value[3] # 1 \/ idx.value[2] < t.len))

\* the token an accessor chain (or a root) denotes.
\* bound: function from the quantified variables in scope to the token of the elements they range over;
\* [k |-> "unknown"] when the domain is not an array of messages (a chain rooted there is not judged)
Unknown == [k |-> "unknown"]
RECURSIVE Resolve(_, _, _, _)
Resolve(n, this, vars, bound) ==
  CASE n.cls = "HplThisMessage" -> this
    [] n.cls = "HplVarReference" ->
         (IF n.name \in DOMAIN bound
          THEN (IF bound[n.name].k = "unknown" THEN Err("BoundVariable") ELSE bound[n.name])
          ELSE IF n.name \in DOMAIN vars THEN vars[n.name] ELSE Err("NoRoot"))
    [] n.cls = "HplFieldAccess" ->
         (LET t == Resolve(n.message, this, vars, bound) IN
          IF IsErr(t) THEN t
          ELSE IF t.k # "msg" THEN Err("NotMessage")
          ELSE IF ContainsName(t, n.field) THEN TypeOfName(t, n.field) ELSE Err("NoField"))
    [] n.cls = "HplArrayAccess" ->
         (LET t == Resolve(n.array, this, vars, bound) IN
          IF IsErr(t) THEN t
          ELSE IF t.k # "arr" THEN Err("NotArray")
          ELSE IF ~IndexInBounds(t, n.index) THEN Err("IndexOutOfRange")
          ELSE t.sub)
    [] OTHER -> Err("NotAReference")

\* the fault (or "ok") of one accessor node
RefFault(n, this, vars, bound) ==
  LET t == Resolve(n, this, vars, bound) IN
  IF IsErr(t) THEN t.kind
  ELSE IF TokType(t) \in DT(n) THEN "ok" ELSE "TypeMismatch"

\* the token of the elements a quantifier ranges over: known when the domain is a reference to an array (of messages,
\* of arrays, of primitive values: a field path through the variable resolves only in the first case)
ElemToken(dom, this, vars, bound) ==
  IF ~IsAccessor(dom) THEN Unknown
  ELSE LET t == Resolve(dom, this, vars, bound) IN
       IF IsErr(t) THEN Unknown ELSE IF t.k = "arr" THEN t.sub ELSE Unknown

Extend(bound, x, t) == [y \in (DOMAIN bound) \cup {x} |-> IF y = x THEN t ELSE bound[y]]

\* all accessor nodes of an expression with the quantified variables in scope at each
RECURSIVE Accessors(_, _, _, _)
Accessors(n, this, vars, bound) ==
  (IF IsAccessor(n) THEN {<<n, bound>>} ELSE {})
  \cup (IF n.cls = "HplQuantifier"
        THEN Accessors(n.domain, this, vars, bound)
             \cup Accessors(n.condition, this, vars, Extend(bound, n.variable, ElemToken(n.domain, this, vars, bound)))
        ELSE UNION {Accessors(Kids(n)[i], this, vars, bound) : i \in 1..Len(Kids(n))})

\* faults of a predicate against the type of its own message and of the aliased events;
\* chains rooted at a quantified variable whose element type is not a message type are not judged
PredFaults(p, this, vars) ==
  {RefFault(a[1], this, vars, a[2]) : a \in Accessors(p, this, vars, [x \in {} |-> Unknown])} \ {"ok", "BoundVariable"}

AllEvents(p) == Opt(p.scope.activator) \o Opt(p.scope.terminator) \o Opt(p.pattern.trigger) \o <<p.pattern.behaviour>>
RECURSIVE ConcatSimple(_)
ConcatSimple(q) == IF q = <<>> THEN <<>> ELSE SimpleEvents(Head(q)) \o ConcatSimple(Tail(q))
AllSimple(p) == ConcatSimple(AllEvents(p))

\* alias -> token of the event that binds it
AliasTypes(p, schema) ==
  LET ss == AllSimple(p)
      bs == {i \in 1..Len(ss) : ss[i].alias[1] = "some"}
  IN [a \in {ss[i].alias[2] : i \in bs} |-> schema[(ss[CHOOSE i \in bs : ss[i].alias[2] = a]).name]]

PropertyFaults(p, schema) ==
  LET ss == AllSimple(p) vars == AliasTypes(p, schema) IN
  UNION {PredFaults(ss[i].predicate, schema[ss[i].name], vars) : i \in 1..Len(ss)}

(* ---- helpers ---- *)
RECURSIVE LeafFields(_, _)
\* set of <<dotted path, token name>>
LeafFields(t, prefix) ==
  UNION {LET f == t.fields[n] p == IF prefix = "" THEN n ELSE prefix \o "." \o n IN
         IF f.k = "msg" THEN LeafFields(f, p) ELSE {<<p, f.name>>}
         : n \in DOMAIN t.fields}

(* ---- predefined integer tokens: two's-complement bounds as hexadecimal digit strings ---- *)
RECURSIVE Rep(_, _)
Rep(c, n) == IF n = 0 THEN "" ELSE c \o Rep(c, n - 1)
UIntMax(w) == Rep("f", w \div 4)
IntMax(w)  == "7" \o Rep("f", (w \div 4) - 1)
IntMinAbs(w) == "8" \o Rep("0", (w \div 4) - 1)
=============================================================================
