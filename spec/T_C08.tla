--------------------------------- MODULE T_C08 ---------------------------------
(* Trace validation of the rewriting functions against their relational              *)
(* post-conditions (C08 simplify; the same event format serves C09, C10, C13).        *)
(* event: [id, op, in (projected input), outs (sequence of projected outputs),        *)
(*         out ("ok" | exception class), rhos (sequence of valuations), ...]           *)
EXTENDS TraceBatch, HplEval
VARIABLES l, judged, skippedU, skippedO, skippedR
vars == <<l, judged, skippedU, skippedO, skippedR>>

IsPred(n) == n.cls \in PredClasses
TypeOf(n) == IF IsPred(n) THEN T_BOOL ELSE DT(n)

\* results of the equivalence obligation on every valuation
Judgements(in, out, rhos) == [i \in 1..Len(rhos) |-> Equiv1(in, out, rhos[i])]

Count(js, what) == Cardinality({i \in 1..Len(js) : js[i] = what})

\* a constant (reference-free) sub-term that is undefined, or a division by an identically zero divisor
RECURSIVE HasRefs(_)
HasRefs(n) == \E x \in Nodes(n) : x.cls \in {"HplThisMessage", "HplVarReference"}
EmptyRho == [this |-> <<"msg", [a \in {} |-> 0]>>, vars |-> [a \in {} |-> 0]]
MayRaise(in, rhos) ==
  \E x \in Nodes(in) :
     \/ (IsExpr(x) /\ ~HasRefs(x) /\ Eval(x, EmptyRho, TRUE)[1] \in {"U", "O"})
     \/ (x.cls = "HplBinaryOperator" /\ x.operator = "/"
           /\ \A i \in 1..Len(rhos) : LET d == Eval(x.operand2, rhos[i], FALSE) IN d[1] # "n" \/ d[2] = 0)

SimplifyVerdict(e, js) ==
  IF e.out # "ok" THEN
       (IF MayRaise(e.in, e.rhos) THEN {} ELSE {"Raises:" \o e.out})
  ELSE LET o == e.outs[1] IN
       (IF IsPred(e.in) # IsPred(o) THEN {"SameKind"} ELSE {})
       \cup (IF TypeOf(e.in) # TypeOf(o) THEN {"SameType"} ELSE {})
       \cup {"WT." \o c : c \in WT(o)}
       \cup (IF \E i \in 1..Len(js) : js[i] = "differ" THEN {"Equivalent"} ELSE {})
       \cup (IF \E i \in 1..Len(js) : js[i] = "undef" THEN {"OutputDefined"} ELSE {})
       \cup (IF IsPred(o) /\ o.cls = "HplPredicateExpression" /\ o.expression.cls = "HplLiteral"
             THEN {"VacuousWhenLiteral"} ELSE {})

Verdict(e, js) ==
  IF e.op = "simplify" THEN SimplifyVerdict(e, js) ELSE {"UnknownOp"}

Init == l = 1 /\ judged = 0 /\ skippedU = 0 /\ skippedO = 0 /\ skippedR = 0
Step == /\ l <= NEvents
        /\ LET e == Events[l]
               js == IF e.out = "ok" THEN Judgements(e.in, e.outs[1], e.rhos) ELSE <<>>
           IN /\ ReportAll(e.id, Verdict(e, js))
              /\ judged' = judged + Count(js, "ok") + Count(js, "differ") + Count(js, "undef")
              /\ skippedU' = skippedU + Count(js, "skipU")
              /\ skippedO' = skippedO + Count(js, "skipO")
              /\ skippedR' = skippedR + Count(js, "skipR")
              /\ (Count(js, "ok") + Count(js, "differ") + Count(js, "undef") = 0 /\ e.out = "ok"
                    => Skipped(e.id, "NoJudgedValuation"))
        /\ l' = l + 1
Finish == /\ l = NEvents + 1
          /\ Stat("judged", judged) /\ Stat("skipU", skippedU) /\ Stat("skipO", skippedO) /\ Stat("skipR", skippedR)
          /\ Done(NEvents)
          /\ l' = l + 1 /\ UNCHANGED <<judged, skippedU, skippedO, skippedR>>
Next == Step \/ Finish
Spec == Init /\ [][Next]_vars
=============================================================================
