"""./check SELFTEST - machinery self-test that does not depend on the properties holding:
   * every module parses (SANY)
   * the model-level instances hold (MC_Types pairs, HplCli)
   * the verdict protocol works end to end: a tiny batch with one good and one corrupted C20 event must yield
     exactly one BAD verdict
Corrupted-trace (canary) tests of every trace spec run inside each check on every run."""
import os

from harness import tlc


def run():
    bad = 0
    for f in sorted(os.listdir(tlc.SPEC)):
        if f.endswith('.tla'):
            ok, out = tlc.sany(f[:-4])
            print('SANY %-18s %s' % (f, 'ok' if ok else 'FAILED'))
            bad += 0 if ok else 1
    for mod in ('MC_Types', 'HplCli'):
        r = tlc.run_model(mod)
        print('MODEL %-17s %s (%d states)' % (mod, 'ok' if r['ok'] else 'FAILED', r['distinct']))
        bad += 0 if r['ok'] else 1
    good = {'id': 1, 'op': 'cast', 's': ['BOOL', 'NUMBER'], 't': ['NUMBER'], 'out': 'ok', 'r': ['NUMBER']}
    corrupt = {'id': 2, 'op': 'cast', 's': ['BOOL', 'NUMBER'], 't': ['NUMBER'], 'out': 'ok', 'r': ['BOOL', 'NUMBER']}
    res = tlc.validate_batch('T_C20', [good, corrupt], shards=1, consts={'COMPLETE': '0'})
    ok = res['bad'] == [(2, 'Cast.IsIntersection')] and res['consumed'] == 2
    print('PROTOCOL verdicts %s' % ('ok' if ok else 'FAILED: %r' % (res['bad'],)))
    bad += 0 if ok else 1
    # the lexer machine: model-level theorems hold, the enumeration is complete, and longest match is not vacuous
    from harness import lex
    texts, r = lex.enumerate_texts(['n', 'o', 't', ' ', '1'], 4, cache=False)
    want = sum(5 ** n for n in range(5))
    facts = [len(texts) == want,
             texts['not']['greedy'] == [['KW', 'not']], texts['nott']['greedy'] == [['NAME', 'nott']],
             texts['no t']['greedy'] == [['NAME', 'no'], ['NAME', 't']], texts['1not']['adj'] is True,
             texts['not1']['greedy'] == [['NAME', 'not1']]]
    ok = all(facts)
    print('MODEL %-17s %s (%d texts, %d states)' % ('HplLex', 'ok' if ok else 'FAILED: %r' % facts, len(texts), r['distinct']))
    bad += 0 if ok else 1
    ptexts, _ = lex.enumerate_texts(None, 0, given=['globally: no/go causes b within 100ms', 'after a as no: some ~p/q {x>1}'], prop=True)
    g1 = [t[0] + ':' + t[1] for t in ptexts['globally: no/go causes b within 100ms']['greedy']]
    ok = g1 == ['KW:globally', 'OP::', 'CHAN:no/go', 'KW:causes', 'CHAN:b', 'KW:within', 'NUM:100', 'UNIT:ms'] and \
        [t[0] for t in ptexts['after a as no: some ~p/q {x>1}']['greedy']] == ['KW', 'CHAN', 'KW', 'NAME', 'OP', 'KW', 'CHAN', 'OP', 'NAME', 'OP', 'NUM', 'OP']
    print('MODEL %-17s %s' % ('HplLex (property)', 'ok' if ok else 'FAILED: %r' % g1))
    bad += 0 if ok else 1
    return 2 if bad else 0
