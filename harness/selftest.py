"""./check SELFTEST - machinery self-test that does not depend on the properties holding:
   * every module parses (SANY)
   * the model-level instances hold (MC_Types pairs, HplCli)
   * the verdict protocol works end to end: a tiny batch with one good and one corrupted C20 event must yield
     exactly one BAD verdict
Corrupted-trace (canary) tests of every trace spec run inside each check on every run."""
import os

from harness import tlc


def run():
    bad = 0
    for f in sorted(os.listdir(tlc.SPEC)):
        if f.endswith('.tla'):
            ok, out = tlc.sany(f[:-4])
            print('SANY %-18s %s' % (f, 'ok' if ok else 'FAILED'))
            bad += 0 if ok else 1
    for mod in ('MC_Types', 'HplCli'):
        r = tlc.run_model(mod)
        print('MODEL %-17s %s (%d states)' % (mod, 'ok' if r['ok'] else 'FAILED', r['distinct']))
        bad += 0 if r['ok'] else 1
    good = {'id': 1, 'op': 'cast', 's': ['BOOL', 'NUMBER'], 't': ['NUMBER'], 'out': 'ok', 'r': ['NUMBER']}
    corrupt = {'id': 2, 'op': 'cast', 's': ['BOOL', 'NUMBER'], 't': ['NUMBER'], 'out': 'ok', 'r': ['BOOL', 'NUMBER']}
    res = tlc.validate_batch('T_C20', [good, corrupt], shards=1, consts={'COMPLETE': '0'})
    ok = res['bad'] == [(2, 'Cast.IsIntersection')] and res['consumed'] == 2
    print('PROTOCOL verdicts %s' % ('ok' if ok else 'FAILED: %r' % (res['bad'],)))
    bad += 0 if ok else 1
    return 2 if bad else 0
