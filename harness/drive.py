"""Shared driver helpers: calling parser entry points and classifying outcomes."""
import sys

from harness.common import parsers
from harness.project import project

DOCUMENTED = ('HplSyntaxError', 'HplSanityError', 'TypeError', 'ValueError')


def call_parser(entry, text, which='pkg', ids=False):
    """Returns (outcome, obj).  outcome = 'ast' or the exception class name."""
    P = parsers(grammar_from_sources=(which == 'src'))
    try:
        obj = P[entry].parse(text)
        return 'ast', obj
    except RecursionError:
        return 'RecursionError', None
    except Exception as e:  # noqa
        return exc_name(e), e


def exc_name(e):
    t = type(e)
    mod = t.__module__ or ''
    if mod.startswith('lark'):
        return 'lark.' + t.__name__
    if mod.startswith('typeguard'):
        return 'typeguard.' + t.__name__
    return t.__name__
