"""C03 - Every AST the library hands out is well-typed."""
import copy

from harness import tlc
from harness.common import CANARY_BASE, Report, import_hpl, rng, split_canaries, tier
from harness.corpus import accepted, accepted_families
from harness.project import project, signature_tables
from harness.rewrites import applicable, results_of, run_call


def run(replay=None):
    import_hpl()
    rep = Report('C03')
    thorough = tier() == 'thorough'
    asts, stats = accepted(thorough, limit=15000 if thorough else 6000, salt='c03')
    rep.add_tlc(stats)
    fams, st2 = accepted_families(['quants', 'slots', 'funs', 'incl', 'bool1w', 'alias', 'cmp11', 'clash'], cap=None if thorough else 400, salt='c03f')
    rep.add_tlc(st2)
    asts = asts + fams
    rnd = rng('c03')
    events, info = [], {}
    eid = 0

    def log(origin, text, obj):
        nonlocal eid
        eid += 1
        ev = {'id': eid, 'kind': 'ast', 'origin': origin, 'node': project(obj, ids=False)}
        events.append(ev if len(events) < 4000 else tlc.pack(ev))      # later events are kept as JSON text (memory)
        info[eid] = (origin, text)
        rep.clause('origin:' + origin.split(':')[0].split('>')[-1])

    eid += 1
    tab = signature_tables()
    tab.update({'id': eid, 'kind': 'tables'})
    events.append(tab)
    info[eid] = ('tables', 'declared operator/function signatures')
    for text, entry, obj in asts:
        log('parse', text, obj)
        for name, thunk in applicable(obj):
            out, r = run_call(thunk)
            if out != 'ok':
                continue
            firsts = results_of(r)
            for x in firsts:
                log(name, text, x)
            # depth 2 (sampled in quick)
            if rnd.random() < (0.5 if thorough else 0.25):
                for x in firsts:
                    for name2, thunk2 in applicable(x):
                        out2, r2 = run_call(thunk2)
                        if out2 == 'ok':
                            for y in results_of(r2):
                                log(name + '>' + name2, text, y)
    # canary: drop a base type from an operand / widen a root
    canaries = []
    for ev in events:
        if not isinstance(ev, dict):
            continue
        n = ev.get('node', {})
        if n.get('cls') == 'HplBinaryOperator' and n['operand1'].get('dt') == ['NUMBER']:
            c = copy.deepcopy(ev); c['id'] = CANARY_BASE + 1
            c['node']['operand1']['dt'] = ['NUMBER', 'MESSAGE']
            canaries.append(c)
            break
    res = tlc.validate_batch('T_C03', events + canaries)
    rep.add_tlc(res)
    rep.add_traces(res['consumed'] - len(canaries))
    rep.cov['canaries_rejected'] = len(canaries)
    for i, clause in split_canaries(res, [c['id'] for c in canaries]):
        origin, text = info[i]
        rep.violation('%s|%s|%s' % (clause, origin, text), 'AST from %s of %r is not well-typed: %s' % (origin, text, clause),
                      {'text': text, 'origin': origin, 'clause': clause})
    for e in events[1:: max(1, len(events) // 6)]:
        rep.sample({'origin': info[e['id']][0], 'text': info[e['id']][1]})
    return rep.finish()
