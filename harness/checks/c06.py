"""C06 - Printing a parsed AST and parsing it again gives the same AST."""
import copy
import json

from harness import grammar, render, tlc
from harness.common import CANARY_BASE, keep, Report, import_hpl, rng, split_canaries, tier
from harness.corpus import sentences
from harness.checks.c15 import subnodes
from harness.drive import call_parser, exc_name
from harness.project import project, strip

TIME_POOL = ['100 ms', '0.07 s', '3 ms', '70 ms', '1e-7 s', '1e22 s', '0.3 s', '1.1 s', '2.5 ms', '100ms', '0.001 s',
             '0 s', '999 ms', '1000 ms', '1e3 s', '0.1 ms', '33 ms', '1.005 s', '4.35 s', '0.57 s']
EXTRA = [
    ('property', 'globally: no (a or b or c)'),
    ('property', 'globally: (a or b or c or d) causes (e as E or f) within 1 s'),
    ('property', 'after (a as A or b or c {x > 0}) until (d or e): some (f {y = 1} or g or h)'),
    ('expression', 'x = NAN'), ('expression', 'x < INF'), ('expression', '-INF < x'), ('expression', 'x * PI + E'),
    ('expression', 'a.b.c[1].d[i + 1][2] = @v.w[0]'), ('expression', 'a[b[c[0]]] > 0'),
    ('expression', 'x < 1e999'), ('expression', 'x in [-1e999 to 2E308]'), ('expression', 'x = 1.8e308 or x < 1e998'), ('expression', 'x > 1e-999'),
    ('expression', 'x < 1e999 and y < INF'), ('property', 'globally: no a {x > 1e400} within 1e999 s'),
    ('expression', 'g[0][1].v > 0'), ('expression', 'g[1][2][3].v.w[4][5].z = @A.m[i][j + 1].n'), ('expression', 'g[0][1][0].v[2][3] < g[1][0].v'),
    ('expression', 'x in {1, 2.5, -3}'), ('expression', 'x in ![1 to y]!'), ('expression', 's = "a b"'),
    ('expression', 's = "a \\"q\\" b"'), ('expression', 'not (a or b) implies (c iff d)'),
    ('predicate', '{ forall i in xs: (exists j in [0 to @i]: ys[@j] > @i) }'),
    ('expression', '1e3 + 1.50 + .5 + 10'), ('expression', '(not a) = b'), ('expression', 'a != (not b)'),
    ('expression', '- a ** 2'), ('expression', '(- a) ** 2'), ('expression', 'a - - b'), ('expression', '2 ** - a'),
    ('property', 'globally: no a as M {yaw(@M) > 0}'), ('property', 'globally: a as M causes b {yaw(@M) > 0 and x = roll(@M)}'),
    ('property', 'globally: no a as M {forall i in @M.xs: @i > yaw(@M)}'),
    ('property', 'globally: no a as M {xs[yaw(@M)] > 0}'), ('property', 'globally: some a as M {x in {roll(@M), 1} or y in [0 to pitch(@M)]}'),
    ('property', 'globally: no a as M {abs(yaw(@M)) < 1 and zs[i + yaw(@M)].w = 2}'), ('property', 'after b as B: no a as M {xs[yaw(@B)] > yaw(@M)}'), ('property', 'after a as M {pitch(@M) = 0}: no b {x = yaw(@M)}'),
    ('specification', '# id: p1\n# title: "T 1"\nglobally: no a\n\n# description: "d"\nafter b: some c {x > 0} within 100 ms'),
]

# every function applied to every kind of argument expression (the grammar takes an argument like an operand: whatever is
# not an atom needs its own parentheses, also in print); those the type checker rejects simply do not take part
FUN_ARGS = ['(x > 0)', '(a and b)', '(not done)', '(a or not b)', '(p implies q)', '(p iff q)', '(x = y)', '(x in {1, 2})', '(x in [0 to y]!)',
            '(forall i in xs: @i > 0)', '(x - y)', '(x * y + 1)', '(- x)', '(x ** 2)', '{x, 1}', '[0 to x]', 'xs[i + 1]', 'm.f', 'abs(x - 1)', '(@A.n + 1)',
            '(len(xs) > 0)', '(not (a and b))', '(- x ** 2)', 'True', '"s"', '1']
EXTRA += [('expression', '%s(%s)' % (f, a)) for f in ('bool', 'int', 'float', 'str', 'abs', 'len', 'max', 'sum', 'sqrt') for a in FUN_ARGS]
EXTRA += [('predicate', '{ %s(%s) = %s }' % (f, a, r)) for f, r in (('int', '1'), ('str', '"True"'), ('float', 'z')) for a in FUN_ARGS[:10]]
EXTRA += [('property', 'globally: no a {bool((x > 0)) and int((not b)) = 0} within 1 s'), ('predicate', '{ xs[int((x > 0))] > 0 }'),
          ('expression', 'x in {int((a and b)), 2}'), ('expression', 'x in [0 to int((y > 1))]')]


def roundtrip(entry, text):
    ev = {'text0': text, 'entry': entry, 'out2': 'na', 'str1': ['na', ''], 'str2': ['na', ''],
          'obs1': {'cls': 'None'}, 'obs2': {'cls': 'None'}, 'pyeq': False, 'refs': []}
    out1, o1 = call_parser(entry, text)
    ev['out1'] = out1
    if out1 != 'ast':
        return ev
    ev['obs1'] = project(o1, ids=True)
    try:
        t1 = str(o1)
        ev['str1'] = ['ok', t1]
    except Exception as e:  # noqa
        ev['str1'] = ['exc', exc_name(e)]
        return ev
    from hpl.ast.expressions import HplDataAccess, HplVarReference
    seen = set()
    for n in subnodes(o1):
        if isinstance(n, (HplDataAccess, HplVarReference)):
            try:
                k = (str(n), json.dumps(strip(project(n, ids=False)), sort_keys=True))
            except Exception:  # noqa
                continue
            if k not in seen:
                seen.add(k)
                ev['refs'].append([k[0], k[1]])
    out2, o2 = call_parser(entry, t1)
    ev['out2'] = out2
    if out2 != 'ast':
        return ev
    ev['obs2'] = project(o2, ids=True)
    try:
        ev['pyeq'] = bool(o1 == o2)
    except Exception:  # noqa
        ev['pyeq'] = False
    try:
        ev['str2'] = ['ok', str(o2)]
    except Exception as e:  # noqa
        ev['str2'] = ['exc', exc_name(e)]
    return ev


def run(replay=None):
    import_hpl()
    rep = Report('C06')
    thorough = tier() == 'thorough'
    rnd = rng('c06')
    sents, stats = sentences(thorough)
    rep.add_tlc(stats)
    inputs = []
    for name, entry, s in sents:
        toks, _ = render.substitute(s, lits=grammar.STD_LITS)
        text = ' '.join(toks)
        inputs.append((entry, text))
        if 'within 100' in text:
            inputs.append((entry, text.replace('within 100 s', 'within ' + rnd.choice(TIME_POOL)).replace('within 100 ms', 'within ' + rnd.choice(TIME_POOL))))
    cap = 60000 if thorough else 14000
    if len(inputs) > cap:
        inputs = rnd.sample(inputs, cap)
    for fam in ['loose', 'funs', 'incl', 'quants', 'slots', 'bool1w', 'num1w'] + (['alias', 'cmp11'] if thorough else []):
        fs, st = grammar.enumerate_family(fam)
        rep.add_tlc(st)
        if not thorough and len(fs) > 500:
            fs = rnd.sample(fs, 500)
        for s in fs:
            toks, _ = render.substitute(s, lits=grammar.STD_LITS)
            inputs.append(('expression', ' '.join(toks)))
    # full-precision and random sub-second / large bounds ("time bounds of any magnitude")
    pool = list(TIME_POOL) + ['0.2579690924717717 s', '0.3333333333333333 s', '0.1234567890123 s', '123456.789 ms', '0.007 s', '1.7e-5 s']
    for _ in range(400 if thorough else 80):
        pool.append('%r s' % rnd.choice([rnd.random(), rnd.random() * 10, rnd.uniform(0, 0.01), float(rnd.randrange(1, 10 ** 6)) / 1000.0]))
        pool.append('%r ms' % rnd.choice([rnd.random() * 1000, float(rnd.randrange(1, 10 ** 6)) / 7.0]))
    for tb in pool:
        inputs.append(('property', 'globally: some a within ' + tb))
        inputs.append(('property', 'after b {x > 0}: a causes c {y = 2} within ' + tb))
    # every spelling of a string literal that the lexer machine (spec/HplLex.tla) derives over a small character set:
    # all texts of bounded length that are exactly one STR token (escaped quotes and backslashes, blanks, tabs)
    from harness import lex
    texts, lr = lex.enumerate_texts(['"', '\\', 'n', 'a', ' '], 7 if thorough else 6)
    rep.add_tlc(lr)
    lits = sorted(t for t, i in texts.items() if i['greedy'] is not None and len(i['greedy']) == 1 and i['greedy'][0][0] == 'STR' and t == i['greedy'][0][1])
    rep.count('string_literal_spellings', len(lits))
    for i, sp in enumerate(lits):
        inputs.append(('expression', 's = ' + sp))
        if i % 4 == 0:
            inputs.append(('property', 'globally: no a {s = %s and t != %s}' % (sp, lits[(i * 7 + 3) % len(lits)])))
    # every pair of binary operators in both nestings, written with explicit parentheses (what is ill-typed is not judged)
    BOPS = ['implies', 'iff', 'or', 'and', '=', '!=', '<', '<=', '>', '>=', 'in', '+', '-', '*', '/', '**']
    for o1 in BOPS:
        for o2 in BOPS:
            for atoms in (('x', 'y', 'z'), ('p', 'q', 'r'), ('x', 'y', 'q'), ('p', 'y', 'z'), ('x', 'q', 'r'), ('x', 'y', '{1, 2}'), ('x', '[0 to 3]', 'r')):
                a, b, c = atoms
                inputs.append(('expression', '%s %s (%s %s %s)' % (a, o1, b, o2, c)))
                inputs.append(('expression', '(%s %s %s) %s %s' % (a, o1, b, o2, c)))
    for u in ('not', '-'):
        for o in BOPS:
            for a, b in (('x', 'y'), ('p', 'q'), ('x', 'q')):
                inputs += [('expression', '%s (%s %s %s)' % (u, a, o, b)), ('expression', '(%s %s) %s %s' % (u, a, o, b)), ('expression', '%s %s (%s %s)' % (a, o, u, b))]
    inputs += EXTRA
    events, info = [], {}
    inputs = [(e, t) for e, t in inputs if keep(t)]
    for i, (entry, text) in enumerate(inputs):
        ev = roundtrip(entry, text)
        ev['id'] = i + 1
        events.append(ev)
        info[i + 1] = ev
        rep.clause('parse:' + ev['out1'])
    canaries = []
    for ev in events:
        if ev['out2'] == 'ast' and ev['obs2'].get('cls') == 'HplBinaryOperator':
            c = copy.deepcopy(ev); c['id'] = CANARY_BASE + 1
            c['obs2']['operator'] = 'iff' if c['obs2']['operator'] != 'iff' else 'or'
            c['str1'] = ['ok', c['str1'][1] + ' (canary)']
            canaries.append(c)
            break
    for ev in events:
        if ev['out2'] == 'ast':
            c = copy.deepcopy(ev); c['id'] = CANARY_BASE + 2
            c['obs2']['ohash'] = 'x' + c['obs2']['ohash']
            c['str1'] = ['ok', c['str1'][1] + ' (canary2)']
            canaries.append(c)
            break
    res = tlc.validate_batch('T_C06', events + canaries, heap='3g')
    rep.add_tlc(res)
    rep.add_traces(res['consumed'] - len(canaries))
    rep.cov['canaries_rejected'] = len(canaries)
    for i, clause in split_canaries(res, [c['id'] for c in canaries]):
        ev = info[i]
        rep.violation(signature(clause, ev), '%s: %r prints as %r' % (clause, ev['text0'], ev['str1'][1]),
                      {'text': ev['text0'], 'entry': ev['entry'], 'printed': ev['str1'], 'second_parse': ev['out2'], 'reprinted': ev['str2'], 'clause': clause})
    for e in events[:: max(1, len(events) // 8)]:
        rep.sample({'text': e['text0'], 'printed': e['str1'][1], 'second_parse': e['out2']})
    return rep.finish()


def signature(clause, ev):
    return '%s|%s' % (clause.split(':')[0], ev['text0'])
