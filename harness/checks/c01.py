"""C01 - Parsing builds exactly the tree the grammar assigns to the text."""
from harness import grammar, render, tlc
import copy

from harness.common import CANARY_BASE, Report, rng, split_canaries, tier
from harness.drive import call_parser
from harness.project import project

ENTRY = {0: 'expression', 26: 'predicate', 30: 'property'}


from harness.corpus import languages  # the enumerated languages are shared with the corpus


NAME_POOL = ['nothing', 'note', 'order', 'android', 'inner', 'tor', 'asx', 'forall_x', 'existsx', 'PIN', 'Ex', 'E1', 'INFO',
             'NANO', 'Trueish', 'within1', 'nosy', 'untilx', 'iffy', 'insert', 'total', 'some1', 'causesx', 'globally_',
             'afterwards', 'Falsehood', 'implies_', 'a1', '_x', 'tomorrow', 'inf', 'pi', 'no_', 'requires2', 'ms', 's', 'hz',
             'abs', 'len', 'max', 'sum', 'str', 'NANOS', 'PITCH', 'INF_LOOP', 'PI2', 'E_STOP', 'ERROR', 'Exists', 'FORALL', 'Not', 'IN', 'TO']
CHAN_POOL = ['/cmd_vel', 'nothing', 'ns/topic_1', '~private', 'after_x', 'orbit', 'some_topic', 'untilted', 'no_go', 'E', 'PI',
             'no/go', 'some/thing', 'after/x', 'until/x1', 'or/b', 'as/x', 'within/t', '/no/x', '~some/no', 'x/no/or', 'ms', 's', 'a1/b_2/c']
NUM_POOL = ['0', '2', '10', '1.5', '0.5', '.5', '1e3', '3.25', '100', '1.0', '7', '2147483648', '9007199254740993',
            '18446744073709551615', '1700000000123456789', '0.1', '12.', '1E2', '123456789.25']

# reduced, class-closed alphabet for the accept/reject (set complement) side
REJ_SIGMA = ['a', '@v', '1', 'True', 'not', 'and', '=', '<', '+', '-', '(', ')', '{', '}', '[', ']', 'to', 'in', 'forall', ':', ',', '.', 'abs', '**']
REJ_KEYWORDS = ['not', 'and', 'to', 'in', 'forall', 'True']


def rej_params(start, maxtok):
    return dict(Start=start, MaxTok=maxtok, IfOps=[], OrOps=[], AndOps=['and'], NotOps=['not'], Quants=['forall'], RelOps=['=', '<', 'in'],
                AddOps=['+', '-'], MulOps=[], PowOps=['**'], NegOps=['-'], Parens=True, Bools=['True'], Strs=[], Nums=['1'], Consts=[],
                CallFuns=['abs'], SetLens=[1, 2], RangeL=['['], RangeR=[']'], Names=['a'], Vars=['@v'], Fields=['a'], QVars=['a'])


def spelled_value(sp):
    """Value of a number spelling, read as exact decimal notation (independent of the parser's int()/float())."""
    from fractions import Fraction
    from harness.project import LIM, num_value
    if sp.isdigit():
        v = int(sp)
        return ['n', v, 1] if abs(v) <= LIM else ['x', repr(v)]
    fr = Fraction(sp)
    if abs(fr.numerator) <= LIM and fr.denominator <= LIM:
        return ['n', fr.numerator, fr.denominator]
    return num_value(float(fr))


def beyond_floats(sp):
    from fractions import Fraction
    try:
        return abs(float(Fraction(sp))) == float('inf')
    except OverflowError:
        return True
    except ValueError:
        return False


def permissive_member(toks, lang, keywords=None):
    """Is some reading of toks in the bounded language?  Keyword tokens may also be read as names;
    every CNAME-class token (a, abs, a keyword read as a name) is a function name directly before
    "(" and an ordinary name elsewhere (the language is enumerated with exactly these two)."""
    idx = [i for i, t in enumerate(toks) if t in (keywords or REJ_KEYWORDS)]
    for mask in range(1 << len(idx)):
        s = list(toks)
        for j, i in enumerate(idx):
            if mask >> j & 1:
                s[i] = 'a'
        s = [('abs' if (i + 1 < len(s) and s[i + 1] == '(') else 'a') if t in ('a', 'abs') else t for i, t in enumerate(s)]
        if tuple(s) in lang:
            return True
    return False


def lex_families(thorough):
    """(name, Sigma, MaxLen, parameters of the bounded language that contains every sentence spellable over Sigma)."""
    none = dict(IfOps=[], OrOps=[], AndOps=[], NotOps=[], Quants=[], RelOps=[], AddOps=[], MulOps=[], PowOps=[], NegOps=[],
                Parens=False, Bools=[], Strs=[], Nums=['1'], Consts=[], CallFuns=[], SetLens=[], RangeL=[], RangeR=[],
                Names=['a'], Vars=[], Fields=['a'], QVars=[], Start=0)
    fams = []
    n = 6 if thorough else 5
    fams.append(('word', ['n', 'o', 't', 'E', '1', '.', '_', ' '], n, dict(none, NotOps=['not'], Consts=['E'], MaxTok=n)))
    n = 5 if thorough else 4
    fams.append(('op', ['a', '1', ' ', '<', '=', '!', '[', ']', '*', '-'], n,
                 dict(none, RelOps=['<', '<=', '=', '!='], AddOps=['-'], MulOps=['*'], PowOps=['**'], NegOps=['-'], Fields=[], MaxTok=n)))
    n = 5 if thorough else 4
    fams.append(('ref', ['a', '@', '.', '1', '(', ')', ' ', 'e', '-', '+'], n,
                 dict(none, Vars=['@v'], Parens=True, CallFuns=['abs'], AddOps=['-', '+'], NegOps=['-'], MaxTok=n)))
    n = 6 if thorough else 5
    fams.append(('str', ['"', 'a', ' ', '\\', '=', '\t'], n, dict(none, Strs=['$s'], RelOps=['='], Fields=[], MaxTok=n)))
    return fams


F21_REJECT_SIDE = set()   # texts that are sentences only when `kw/rest` is read as `kw` `/rest` (known finding F21)
PROP_PIECES = ['no', 'some', '/x', 'x', ' ', 'as', 'causes', 'or', '(', ')']


def prop_readings(g):
    """Abstract readings of a property-level tokenisation: every keyword may also be a name; a name directly after a
    token read as the keyword `as` is an alias (A), any other name a channel (t)."""
    from harness.lex import PROP_KEYWORDS
    idx = [i for i, (c, s) in enumerate(g) if s in PROP_KEYWORDS]
    for mask in range(1 << len(idx)):
        asname = {i for j, i in enumerate(idx) if mask >> j & 1}
        out = []
        for i, (c, s) in enumerate(g):
            if c == 'OP' or (s in PROP_KEYWORDS and i not in asname):
                out.append(s)
            else:
                out.append('A' if (i > 0 and g[i - 1][1] == 'as' and (i - 1) not in asname) else 't')
        yield tuple(out)


def split_keyword_segments(g):
    """F21: the implementation reads `kw/rest` as the keyword followed by the absolute channel name `/rest` wherever the
    keyword is acceptable: every way of cutting some of the keyword-segment channel names of g (none cut excluded)."""
    import itertools
    import re
    from harness.lex import PROP_KEYWORDS
    cut = {}
    for i, (c, s) in enumerate(g):
        m = re.match(r'(%s)(/.*)$' % '|'.join(PROP_KEYWORDS), s)
        if c == 'CHAN' and m:
            cut[i] = [['KW', m.group(1)], ['CHAN', m.group(2)]]
    for k in range(1, len(cut) + 1):
        for sub in itertools.combinations(sorted(cut), k):
            out = []
            for i, t in enumerate(g):
                out += cut[i] if i in sub else [list(t)]
            yield out


def lex_prop_events(rep, thorough, new_ids, byid):
    """Property level, character by character: 'globally:' followed by every concatenation of a few pieces."""
    from harness import lex
    k = 5 if thorough else 4
    texts, r = lex.enumerate_texts([' '], 0, pieces=PROP_PIECES, maxpieces=k, prop=True, prefix='globally:')
    rep.add_tlc(r)
    params = dict(Start=30, MaxTok=2 + k, ScopeKinds=['globally'], PatternKinds=['no', 'some', 'causes'], Channels=['t'], AliasNames=['A'],
                  DisjLens=[2, 3], PredPool='SmallPool', Times=[], Units=[])
    sents, r2 = grammar.enumerate_language(params)
    rep.add_tlc(r2)
    lang = {tuple(x['toks']): x['ast'] for x in sents}
    rep.count('lex_prop_texts', len(texts))
    rep.count('lex_prop_language', len(lang))
    events = []
    nacc = nrej = nuns = 0
    f21 = F21_REJECT_SIDE
    for text in sorted(texts):
        info = texts[text]
        g = info['greedy']
        if g is not None and not info['adj'] and lex.abstract_prop(g) in lang:
            try:
                exp = lex.fill(grammar.fix_var_names(lang[lex.abstract_prop(g)]), g, spelled_value)
            except lex.FillError as e:
                raise tlc.MachineryError('cannot put the tokens of %r into the tree of its sentence: %s' % (text, e))
            kind = 'accept'
            nacc += 1
        elif g is not None and any(r in lang for r in prop_readings(g)):
            nuns += 1
            continue
        else:
            kind, exp = 'reject', {'cls': 'None'}
            nrej += 1
            if g is not None and any(r in lang for sp in split_keyword_segments(g) for r in prop_readings(sp)):
                f21.add(text)
        out, obj = call_parser('property', text, 'pkg')
        eid, sid = new_ids()
        events.append({'id': eid, 'sid': sid, 'kind': kind, 'entry': 'property', 'expected': exp, 'out': out,
                       'observed': project(obj, ids=False) if out == 'ast' else {'cls': 'None'}})
        byid[eid] = (text, 'pkg', [t[1] for t in (g or [])])
        rep.clause('lex_prop_%s:%s' % (kind, out))
    rep.count('lex_prop_must_accept', nacc)
    rep.count('lex_prop_must_reject', nrej)
    rep.count('lex_prop_unspecified', nuns)
    return events


LEX_KEYWORDS = ['not', 'and', 'or', 'implies', 'iff', 'in', 'forall', 'exists', 'to', 'True', 'False', 'PI', 'INF', 'NAN', 'E']


def lex_events(rep, thorough, new_ids, byid):
    """Character level: every text of a bounded family, tokenised by the lexer machine (spec/HplLex.tla)."""
    from harness import lex
    events = []
    for name, sigma, maxlen, params in lex_families(thorough):
        texts, r = lex.enumerate_texts(sigma, maxlen)
        rep.add_tlc(r)
        sents, r2 = grammar.enumerate_language(params)
        rep.add_tlc(r2)
        lang = {tuple(x['toks']): x['ast'] for x in sents}
        rep.count('lex_%s_texts' % name, len(texts))
        rep.count('lex_%s_language' % name, len(lang))
        nacc = nrej = nuns = 0
        for text in sorted(texts):
            info = texts[text]
            g = info['greedy']
            kind = None
            if g is not None and any(c == 'NUM' and beyond_floats(sp) for c, sp in g):
                nuns += 1           # 1e999: a value outside the floats; what the literal then holds is not stated
                continue
            if g is not None and not info['adj'] and lex.abstract(g) in lang:
                try:
                    exp = lex.fill(grammar.fix_var_names(lang[lex.abstract(g)]), g, spelled_value)
                except lex.FillError as e:
                    raise tlc.MachineryError('cannot put the tokens of %r into the tree of its sentence: %s' % (text, e))
                kind = 'accept'
            else:
                readings = ([g] if g is not None else []) + info['others']
                if any(permissive_member(list(lex.abstract(t)), lang, LEX_KEYWORDS) for t in readings):
                    nuns += 1
                    continue
                kind, exp = 'reject', {'cls': 'None'}
            for which in (('pkg', 'src') if (kind == 'accept' and len(text) <= 3) else ('pkg',)):
                out, obj = call_parser('expression', text, which)
                eid, sid = new_ids()
                events.append({'id': eid, 'sid': sid, 'kind': kind, 'entry': 'expression', 'expected': exp, 'out': out,
                               'observed': project(obj, ids=False) if out == 'ast' else {'cls': 'None'}})
                byid[eid] = (text, which, [t[1] for t in (g or [])])
                rep.clause('lex_%s:%s' % (kind, out))
            if kind == 'accept':
                nacc += 1
            else:
                nrej += 1
        rep.count('lex_%s_must_accept' % name, nacc)
        rep.count('lex_%s_must_reject' % name, nrej)
        rep.count('lex_%s_unspecified' % name, nuns)
    return events


def mutants(sentences, sigma, maxlen):
    out = set()
    for s in sentences:
        n = len(s)
        for i in range(n):
            out.add(s[:i] + s[i + 1:])
            for t in sigma:
                if t != s[i]:
                    out.add(s[:i] + (t,) + s[i + 1:])
        if n < maxlen:
            for i in range(n + 1):
                for t in sigma:
                    out.add(s[:i] + (t,) + s[i:])
    out.discard(())
    return out


def run(replay=None):
    rep = Report('C01')
    thorough = tier() == 'thorough'
    rnd = rng('c01')
    events, byid = [], {}
    eid = 0
    sid = 0
    from harness.common import seed as _seed
    from harness.corpus import simulated
    runs = [(name, params, None) for name, params in languages(thorough)] + list(simulated(thorough))
    gap_cands = []
    for name, params, sim in runs:
        sents, r = grammar.enumerate_language(params, simulate=sim, seed=_seed() + 1) if sim else grammar.enumerate_language(params)
        rep.add_tlc(r)
        rep.count('sentences_' + name, len(sents))
        entry = ENTRY[params['Start']]
        for s in sents:
            sid += 1
            # placeholders -> names that merely begin with a keyword, alternative number spellings, channel names
            names = {k: rnd.choice(NAME_POOL) for k in ('a', 'f', 'x', 'A') if rnd.random() < 0.5}
            chans = {k: rnd.choice(CHAN_POOL) for k in ('t', 'u') if rnd.random() < 0.5}
            if chans.get('t') is not None and chans.get('t') == chans.get('u'):
                chans.pop('u')
            lits = dict(grammar.STD_LITS)
            if rnd.random() < 0.4:
                sp = rnd.choice(NUM_POOL)
                lits['1'] = (sp, spelled_value(sp))
            toks, exp = render.substitute(s, names=names, chans=chans, lits=lits)
            exp = grammar.fix_var_names(exp)
            if rnd.random() < (0.5 if thorough else 0.12):
                gap_cands.append((entry, toks, exp))
            texts = [render.layout(toks, 0), render.layout(toks, 1, rnd)]
            if thorough or rnd.random() < 0.25:
                texts.append(render.layout(toks, 2))
            variants = [(t, 'pkg') for t in texts] + [(texts[0], 'src')]
            for text, which in variants:
                out, obj = call_parser(entry, text, which)
                eid += 1
                ev = {'id': eid, 'sid': sid, 'kind': 'accept', 'entry': entry, 'expected': exp, 'out': out,
                      'observed': project(obj, ids=False) if out == 'ast' else {'cls': 'None'}}
                events.append(ev)
                byid[eid] = (text, which, toks)
                rep.clause('out:' + out)
    # ---- the tree assigned to a text does not depend on what was parsed before: re-parse an early sample at the very end
    early = [ev for ev in events if ev['kind'] == 'accept' and byid[ev['id']][1] == 'pkg'][:: max(1, len(events) // 600)][:600]
    for ev in early:
        text, which, toks = byid[ev['id']]
        out, obj = call_parser(ev['entry'], text, which)
        sid += 1
        first = dict(ev)
        eid += 1
        first['id'], first['sid'] = eid, sid
        byid[eid] = (text, which, toks)
        events.append(first)
        eid += 1
        events.append({'id': eid, 'sid': sid, 'kind': 'accept', 'entry': ev['entry'], 'expected': ev['expected'], 'out': out,
                       'observed': project(obj, ids=False) if out == 'ast' else {'cls': 'None'}})
        byid[eid] = (text + '   [parsed again at the end of the run]', which, toks)
    rep.count('reparsed_at_end', len(early))
    # ---- reject side: token mutants outside the permissive bounded language (set complement)
    L = 5 if thorough else 4
    for start, entry in ((0, 'expression'), (26, 'predicate')):
        sents, r = grammar.enumerate_language(rej_params(start, L + (2 if start == 26 else 0)))
        rep.add_tlc(r)
        lang = {tuple(x['toks']) for x in sents}
        base = [t for t in lang if len(t) <= L - 1 + (2 if start == 26 else 0)]
        cands = mutants(base, REJ_SIGMA, L + (2 if start == 26 else 0)) - lang
        cands = sorted(cands)
        if len(cands) > (200000 if thorough else 25000):
            cands = rnd.sample(cands, 200000 if thorough else 25000)
        nrej = nuns = 0
        for toks in cands:
            if permissive_member(list(toks), lang):
                nuns += 1
                continue
            nrej += 1
            sid += 1
            text = ' '.join(toks)
            out, obj = call_parser(entry, text, 'pkg')
            eid += 1
            events.append({'id': eid, 'sid': sid, 'kind': 'reject', 'entry': entry, 'expected': {'cls': 'None'}, 'out': out,
                           'observed': project(obj, ids=False) if out == 'ast' else {'cls': 'None'}})
            byid[eid] = (text, 'pkg', list(toks))
            rep.clause('reject:' + out)
        rep.count('mutants_must_reject_' + entry, nrej)
        rep.count('mutants_unspecified_' + entry, nuns)
    # ---- layouts with arbitrary patterns of omitted blanks: the lexer machine says which of them still spell the sentence
    from harness import lex
    gtexts = {}
    for entry, toks, exp in gap_cands:
        for prob in (0.3, 0.6, 1.0):
            parts = [toks[0]]
            for i in range(1, len(toks)):
                # (1.0 = drop every blank except between two word-like characters)
                keep_blank = (rnd.random() >= prob) if prob < 1.0 else (toks[i - 1][-1].isalnum() or toks[i - 1][-1] in '_"') and (toks[i][0].isalnum() or toks[i][0] in '_@"./~')
                parts.append((' ' if keep_blank else '') + toks[i])
            gtexts.setdefault(('property' if entry == 'property' else 'pred', ''.join(parts)), (entry, toks, exp))
    ngap = ndiff = 0
    for mode in ('property', 'pred'):
        sel = {t: v for (m, t), v in gtexts.items() if m == mode}
        if not sel:
            continue
        lexed, lr = lex.enumerate_texts(None, 0, given=list(sel), prop=(mode == 'property'))
        rep.add_tlc(lr)
        for text, (entry, toks, exp) in sorted(sel.items()):
            info = lexed.get(text)
            if info is None or info['greedy'] is None or info['adj'] or [t[1] for t in info['greedy']] != list(toks):
                ndiff += 1          # without those blanks the machine reads other tokens: not a layout of this sentence
                continue
            ngap += 1
            out, obj = call_parser(entry, text, 'pkg')
            eid += 1
            sid += 1
            events.append({'id': eid, 'sid': sid, 'kind': 'accept', 'entry': entry, 'expected': exp, 'out': out,
                           'observed': project(obj, ids=False) if out == 'ast' else {'cls': 'None'}})
            byid[eid] = (text, 'pkg', toks)
            rep.clause('gaps:' + out)
    rep.count('layouts_with_omitted_blanks', ngap)
    rep.count('blank_patterns_that_change_the_tokens', ndiff)
    # ---- character level: the lexer machine
    def new_ids():
        nonlocal eid, sid
        eid += 1
        sid += 1
        return eid, sid
    events.extend(lex_events(rep, thorough, new_ids, byid))
    events.extend(lex_prop_events(rep, thorough, new_ids, byid))
    import os
    only = os.environ.get('VERIF_ONLY')
    if only is not None:
        # --replay: judge only the recorded text (exactly: white space is significant at this level) and its layout group
        sids = {e['sid'] for e in events if byid[e['id']][0].replace(' [parsed again at the end of the run]', '').rstrip() == only.rstrip() or byid[e['id']][0] == only}
        events = [e for e in events if e['sid'] in sids]
        rep.count('replayed_events', len(events))
    # canaries: corrupted recordings that the trace spec must reject
    canaries = []
    for ev in events:
        if ev['out'] == 'ast' and ev['observed'].get('cls') == 'HplBinaryOperator' and \
                ev['observed']['operand1'] != ev['observed']['operand2']:
            c = copy.deepcopy(ev)
            c['id'] = CANARY_BASE + len(canaries)
            c['sid'] = CANARY_BASE + len(canaries)
            o = c['observed']
            o['operand1'], o['operand2'] = o['operand2'], o['operand1']
            canaries.append(c)
            if len(canaries) >= 3:
                break
    res = tlc.validate_batch('T_C01', events + canaries, group_key='sid')
    rep.add_tlc(res)
    rep.add_traces(res['consumed'] - len(canaries))
    rep.cov['canaries_rejected'] = len(canaries)
    for i, clause in split_canaries(res, [c['id'] for c in canaries]):
        text, which, toks = byid[i]
        rep.violation(signature(clause, toks, text), '%s on %r (%s parser)' % (clause, text, which),
                      {'text': text, 'clause': clause, 'parser': which})
    for e in events[:: max(1, len(events) // 8)]:
        rep.sample({'text': byid[e['id']][0], 'out': e['out']})
    return rep.finish()


def signature(clause, toks, text=None):
    """Known finding F21: the first event of a pattern is a relative channel name whose first segment is `no` / `some`
    (rejected), or a text that is a property only when `kw/rest` is read as `kw` `/rest` (accepted)."""
    import re
    if clause == 'MustReject' and text in F21_REJECT_SIDE:
        return 'MustReject:sentence-only-when-a-keyword-segment-channel-is-cut-after-the-keyword'
    if clause == 'MustAccept' and ':' in toks:
        i = list(toks).index(':')
        if i + 1 < len(toks) and re.match(r'(no|some)/', toks[i + 1]):
            return 'MustAccept:pattern-starts-with-a-channel-whose-first-segment-is-no-or-some'
    return '%s|%s' % (clause.split(':')[0], ' '.join(toks))
