"""C01 - Parsing builds exactly the tree the grammar assigns to the text."""
from harness import grammar, render, tlc
import copy

from harness.common import CANARY_BASE, Report, rng, split_canaries, tier
from harness.drive import call_parser
from harness.project import project

ENTRY = {0: 'expression', 26: 'predicate', 30: 'property'}


def languages(thorough):
    L = []
    # all operators, few atoms (precedence / associativity / operand order)
    L.append(('expr_ops', dict(Start=0, MaxTok=6 if thorough else 5, Bools=['True'], Strs=[], Consts=[], Fields=[],
                               CallFuns=[], SetLens=[], RangeL=[], RangeR=[], Quants=[], Vars=[])))
    # all atom kinds and compound values, few operators
    L.append(('expr_atoms', dict(Start=0, MaxTok=6 if thorough else 5, IfOps=['implies'], OrOps=[], AndOps=['and'],
                                 RelOps=['=', 'in'], AddOps=['-'], MulOps=[], PowOps=['**'], Nums=['1', '1.5'],
                                 Consts=['PI', 'INF'], Parens=False)))
    L.append(('pred', dict(Start=26, MaxTok=9 if thorough else 8, Quants=['forall'], IfOps=['iff'], OrOps=['or'], AndOps=[],
                           RelOps=['<'], AddOps=['+'], MulOps=['/'], PowOps=[], NegOps=[], Strs=[], Consts=[],
                           RangeL=['['], RangeR=[']!'], CallFuns=['len'], SetLens=[1], Fields=[])))
    L.append(('prop', dict(Start=30, MaxTok=11 if thorough else 10, PredPool='SmallPool', Channels=['t', 'u'],
                           Times=['100'], DisjLens=[2] if not thorough else [2, 3])))
    return L


def run(replay=None):
    rep = Report('C01')
    thorough = tier() == 'thorough'
    rnd = rng('c01')
    events, byid = [], {}
    eid = 0
    sid = 0
    for name, params in languages(thorough):
        sents, r = grammar.enumerate_language(params)
        rep.add_tlc(r)
        rep.count('sentences_' + name, len(sents))
        entry = ENTRY[params['Start']]
        for s in sents:
            sid += 1
            toks, exp = render.substitute(s, lits=grammar.STD_LITS)
            texts = [render.layout(toks, 0), render.layout(toks, 1, rnd)]
            if thorough:
                texts.append(render.layout(toks, 2))
            variants = [(t, 'pkg') for t in texts] + [(texts[0], 'src')]
            for text, which in variants:
                out, obj = call_parser(entry, text, which)
                eid += 1
                ev = {'id': eid, 'sid': sid, 'kind': 'accept', 'entry': entry, 'expected': exp, 'out': out,
                      'observed': project(obj, ids=False) if out == 'ast' else {'cls': 'None'}}
                events.append(ev)
                byid[eid] = (text, which, toks)
                rep.clause('out:' + out)
    # canaries: corrupted recordings that the trace spec must reject
    canaries = []
    for ev in events:
        if ev['out'] == 'ast' and ev['observed'].get('cls') == 'HplBinaryOperator' and \
                ev['observed']['operand1'] != ev['observed']['operand2']:
            c = copy.deepcopy(ev)
            c['id'] = CANARY_BASE + len(canaries)
            c['sid'] = CANARY_BASE + len(canaries)
            o = c['observed']
            o['operand1'], o['operand2'] = o['operand2'], o['operand1']
            canaries.append(c)
            if len(canaries) >= 3:
                break
    res = tlc.validate_batch('T_C01', events + canaries, group_key='sid')
    rep.add_tlc(res)
    rep.add_traces(res['consumed'] - len(canaries))
    rep.cov['canaries_rejected'] = len(canaries)
    for i, clause in split_canaries(res, [c['id'] for c in canaries]):
        text, which, toks = byid[i]
        rep.violation('%s|%s' % (clause.split(':')[0], ' '.join(toks)), '%s on %r (%s parser)' % (clause, text, which),
                      {'text': text, 'clause': clause, 'parser': which})
    for e in events[:: max(1, len(events) // 8)]:
        rep.sample({'text': byid[e['id']][0], 'out': e['out']})
    return rep.finish()
