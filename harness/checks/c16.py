"""C16 - ASTs are immutable values: no API call changes an existing tree.

G: MC_Sched (HplSession.tla) - TLC enumerates every call schedule up to a length bound over the API
   alphabet x argument selectors.
D: each schedule is replayed on freshly parsed, type-open seed ASTs; after every call the deep snapshot
   of every handle allocated so far is recorded.
V: T_C16 - Immutable (every earlier snapshot unchanged at every step) and the but() post-conditions."""
import copy
import json

import attr

from harness import tlc
from harness.common import CANARY_BASE, Report, import_hpl, rng, split_canaries, tier
from harness.drive import call_parser, exc_name
from harness.project import project

SEEDS = [
    ('condition', 'sum({x, y}) > 0'),
    ('condition', 'prod({x, 2}) = z'),
    ('condition', 'x in {a, b}'),
    ('condition', '@v = f'),
    ('predicate', '{ a != b }'),
    ('predicate', '{ exists k in xs: @k = data }'),
    ('condition', '(a = 1) = (b = c)'),
    ('condition', 'abs(x) > y or not p'),
    ('predicate', '{ a = @A.b and not c }'),
    ('condition', 'forall k in [0 to n]: (xs[@k] > y and p)'),
    ('condition', 'not (a = b or c implies d)'),
    ('expression', 'x + y * (z - 1)'),
    ('condition', 'xs[@A.i + 1] > ys[j] and zs[k] = w'),
    ('predicate', '{ q in {a, b[c], @A.d} and len(e) > f }'),
    ('condition', 'max({x, y, 3, 4}) < len(ws) + @A.n'),
    ('condition', 'x in [0 to INF] or @A.v in ![-INF to 3] or zs[i] in [1 to 5]!'),
    ('condition', 'forall x in {@a, 1}: (@x = b or str(@x) = c)'),
    ('condition', 'forall i in {x, y, 2}: (@i > 0 and p)'),
    ('condition', 'not (exists j in {a, b}: (@j or q)) and (forall k in {u, @A.w}: -@k < 3)'),
    ('condition', 'exists y in @A.zs: (@y = w and @y in {v, 2})'),
    ('expression', 'not (q in {1, 2, r}) implies (s in [lo to INF]! and t in xs)'),
    ('condition', 'gcd({a, 12, 18}) > 1 or gcd({b, 4, 6}) = c'),
    ('condition', 'min({x, 5, 3}) + sum({y, 1, 2}) < prod({z, 2, 3}) - max({w, 7, 8})'),
    ('property', 'after t as A {a > 1}: (u {b = @A.a} or w) causes z {c = d} within 100 ms'),
    ('property', 'after (p as P or q): no (b1 {x = y} or b2 {y > 0}) within 1 s'),
    ('specification', '# id: p1\n# title: "T"\nglobally: (a1 {x = y} or a2 as B) causes (b1 or b2 {k = @B.k})'),
]

OPS_QUICK = ['str', 'external_references', 'iterate', 'is_fully_typed', 'eq_hash', 'cast_same', 'cast_narrow',
             'but_unchanged', 'but_lit_num', 'but_lit_str', 'but_lit_bool', 'but_metadata', 'simplify', 'split_and',
             'refactor_reference', 'replace_this_with_var', 'replace_var_with_this', 'replace_var_with_literal',
             'negate', 'join_self', 'canonical_form', 'type_check_references', 'publish_event',
             'contains_reference', 'contains_self_reference', 'get_conjuncts', 'get_disjuncts', 'sanity_check', 'aliases_events', 'repr',
             'parse_rejected_syntax', 'parse_rejected_type', 'parse_rejected_sanity', 'parse_accepted']
PARSE_TEXTS = {'parse_rejected_syntax': ('condition', 'a + * b >'), 'parse_rejected_type': ('predicate', '{ (1 + True) > 2 }'),
               'parse_rejected_sanity': ('property', 'globally: a as M causes b as M'), 'parse_accepted': ('condition', 'other = 1 or len(things) > 2')}
SELS = ['root', 'child1', 'child2', 'grandchild', 'refleaf', 'thisleaf', 'result']


def ast_children(o):
    from hpl.ast.base import HplAstObject
    out = []
    for f in attr.fields(type(o)):
        v = getattr(o, f.name)
        if isinstance(v, HplAstObject):
            out.append(v)
        elif isinstance(v, (tuple, list)):
            out.extend(x for x in v if isinstance(x, HplAstObject))
    return out


def select(root, sel, last):
    from hpl.ast.expressions import HplFieldAccess, HplVarReference, HplArrayAccess
    if sel == 'root':
        return root
    if sel == 'result':
        return last
    ch = ast_children(root)
    if sel == 'child1':
        return ch[0] if ch else None
    if sel == 'child2':
        return ch[1] if len(ch) > 1 else None
    if sel == 'grandchild':
        g = ast_children(ch[0]) if ch else []
        return g[-1] if g else None
    if sel == 'thisleaf':
        from hpl.ast.expressions import HplThisMessage
        stack = [root]
        while stack:
            o = stack.pop(0)
            if isinstance(o, HplThisMessage):
                return o
            stack.extend(ast_children(o))
        return None
    if sel == 'refleaf':
        stack = [root]
        while stack:
            o = stack.pop(0)
            if isinstance(o, (HplFieldAccess, HplVarReference, HplArrayAccess)):
                return o
            stack.extend(ast_children(o))
    return None


def schema():
    from hpl import types as T
    num = T.FLOAT64
    inner = T.MessageType('Inner', fields={'n': num, 'a': num, 'b': num, 'k': num})
    flds = {k: num for k in 'a b c d k n x y z'.split()}
    flds.update({'xs': T.ArrayType('f[]', subtype=num), 'p': T.BOOLEANS})
    m = T.MessageType('M', fields=flds)
    d = {t: m for t in ['t', 'u', 'w', 'z', 'p', 'q', 'b1', 'b2', 'a1', 'a2']}
    d.update({'A': m, 'B': m, 'P': m})
    return d


def apply(op, o, root, newalias='M'):
    """Returns (outcome, results[list of AST objects], but_fact)."""
    from hpl import rewrite as R
    from hpl.ast.base import HplAstObject
    from hpl.ast.events import HplSimpleEvent
    from hpl.ast.expressions import HplExpression, HplLiteral, HplBinaryOperator
    from hpl.ast.predicates import HplPredicate
    from hpl.ast.properties import HplProperty
    from hpl.types import DataType
    NA = ('na', [], ['na'])
    if o is None:
        return NA
    isexpr, ispred = isinstance(o, HplExpression), isinstance(o, HplPredicate)
    but = ['na']
    res = []
    try:
        if op in PARSE_TEXTS:
            # another text goes through a parser entry point in the same process (accepted, or rejected in one of three ways)
            entry, text = PARSE_TEXTS[op]
            po, pobj = call_parser(entry, text)
            if (po == 'ast') != (op == 'parse_accepted'):
                raise tlc.MachineryError('%s: %r gave %s' % (op, text, po))
            return 'ok', [], but
        elif op == 'str':
            str(o)
        elif op == 'eq_hash':
            _ = (o == o, hash(o))
        elif op in ('external_references', 'contains_self_reference', 'is_fully_typed'):
            if not hasattr(o, op):
                return NA
            getattr(o, op)()
        elif op == 'contains_reference':
            if not hasattr(o, op):
                return NA
            o.contains_reference('A')
        elif op == 'iterate':
            list(o.iterate())
        elif op == 'repr':
            repr(o)
        elif op in ('get_conjuncts', 'get_disjuncts'):
            if not (isexpr or ispred):
                return NA
            getattr(R, op)(o)
        elif op == 'sanity_check':
            if not hasattr(o, 'sanity_check'):
                return NA
            o.sanity_check()
        elif op == 'aliases_events':
            if isinstance(o, HplProperty):
                [list(e.simple_events()) + list(e.aliases()) for e in o.events()]
            elif hasattr(o, 'aliases'):
                list(o.aliases()), list(o.simple_events())
            else:
                return NA
        elif op == 'cast_same':
            if not isexpr:
                return NA
            res = [o.cast(o.data_type)]
        elif op == 'cast_narrow':
            if not isexpr:
                return NA
            for b in (DataType.NUMBER, DataType.BOOL, DataType.STRING, DataType.ARRAY, DataType.MESSAGE):
                if o.data_type & b and o.data_type != b:
                    res = [o.cast(b)]
                    break
            else:
                return NA
        elif op == 'but_unchanged':
            fs = [f.name for f in attr.fields(type(o)) if f.name != 'metadata' and f.init]
            if not fs:
                return NA
            r = o.but(**{fs[-1]: getattr(o, fs[-1])})
            but = ['unchanged', r is o]
            res = [r]
        elif op in ('but_lit_num', 'but_lit_str', 'but_lit_bool', 'but_metadata'):
            if op == 'but_metadata':
                changes = {'metadata': {'k': 'v'}}
            else:
                lit = {'but_lit_num': HplLiteral.number(3), 'but_lit_str': HplLiteral.string('ok'),
                       'but_lit_bool': HplLiteral.true()}[op]
                fs = [f.name for f in attr.fields(type(o)) if f.name != 'metadata' and f.init
                      and isinstance(getattr(o, f.name), HplExpression)]
                if not fs:
                    return NA
                changes = {fs[-1]: lit}
            r = o.but(**changes)
            kw = {f.name: getattr(o, f.name) for f in attr.fields(type(o)) if f.init}
            kw.update({k: v for k, v in changes.items() if k != 'metadata'})
            fresh = type(o)(**kw)
            keepm = dict(r.metadata)
            r.metadata['zz'] = '1'
            eq_after, hash_after = (r == fresh), (hash(r) == hash(fresh))
            r.metadata.clear()
            r.metadata.update(keepm)
            tgt = project(o, ids=True)
            if op == 'but_metadata':
                tgt = dict(tgt)
                tgt['metadata'] = [['k', 'v']]
            but = ['changed', project(r, ids=True), project(fresh, ids=True), tgt, bool(eq_after), bool(hash_after)]
            res = [r]
        elif op == 'simplify':
            if not (isexpr or ispred):
                return NA
            res = [R.simplify(o)]
        elif op == 'split_and':
            if not (ispred or (isexpr and o.data_type == DataType.BOOL)):
                return NA
            res = list(R.split_and(o))
        elif op == 'refactor_reference':
            if not (ispred or (isexpr and o.data_type == DataType.BOOL)):
                return NA
            res = list(R.refactor_reference(o, 'A'))
        elif op == 'replace_this_with_var':
            if not (isexpr or ispred):
                return NA
            res = [R.replace_this_with_var(o, newalias)]      # a name no earlier schedule of this process has used
        elif op == 'replace_var_with_this':
            if not (isexpr or ispred):
                return NA
            res = [R.replace_var_with_this(o, 'A')]
        elif op == 'replace_var_with_literal':
            if not (isexpr or ispred):
                return NA
            names = []
            from hpl.ast.expressions import HplVarReference
            stack = [o]
            while stack:
                x = stack.pop()
                if isinstance(x, HplVarReference):
                    names.append(x.name)
                stack.extend(ast_children(x))
            if not names:
                return NA
            try:
                free = sorted(o.external_references())       # a FREE variable if there is one (a bound one cannot be replaced away)
            except Exception:  # noqa
                free = []
            res = [o.replace_var_reference((free or names)[0], HplLiteral.number(3))]
        elif op == 'negate':
            if not ispred:
                return NA
            res = [o.negate()]
        elif op == 'join_self':
            if not ispred:
                return NA
            res = [o.join(o)]
        elif op == 'canonical_form':
            if not isinstance(o, HplProperty):
                return NA
            res = list(R.canonical_form(o))
        elif op == 'type_check_references':
            if not isinstance(o, HplProperty):
                return NA
            o.type_check_references(schema())
        elif op == 'publish_event':
            if not ispred:
                return NA
            res = [HplSimpleEvent.publish('t', alias='A', predicate=o)]
        else:
            return NA
        return 'ok', [r for r in res if isinstance(r, HplAstObject)], but
    except Exception as e:  # noqa
        return exc_name(e), [], ['na']


def schedules(thorough, rep):
    cfgq = 'SPECIFICATION Spec\nCHECK_DEADLOCK FALSE\nCONSTANT MaxCalls = %d\nCONSTANT Ops = {%s}\nCONSTANT Sels = {%s}\nINVARIANT QueriesAllocateNothing\nINVARIANT EmitSched\n'
    out = []
    # all schedules of length <= 2 over the whole alphabet
    q = lambda xs: ', '.join('"%s"' % x for x in xs)
    res = tlc.run_model('MC_Sched', cfg_text=cfgq % (2, q(OPS_QUICK), q(SELS)), workers=1)
    if not res['ok']:
        raise tlc.MachineryError(res['out'][-2000:])
    rep.add_tlc(res)
    for t in res['tuples']:
        if t[0] == 'S':
            out.append(json.loads(t[1]))
    # length 3 over the mutating part of the alphabet
    ops3 = ['cast_narrow', 'but_lit_num', 'but_lit_str', 'simplify', 'split_and', 'refactor_reference',
            'replace_var_with_literal', 'replace_var_with_this', 'replace_this_with_var', 'canonical_form', 'type_check_references', 'eq_hash',
            'parse_rejected_type']
    sels3 = ['root', 'child1', 'grandchild', 'thisleaf', 'result'] if not thorough else SELS
    res = tlc.run_model('MC_Sched', cfg_text=cfgq % (3, q(ops3 if not thorough else OPS_QUICK[4:]), q(sels3)), workers=1, timeout=3000)
    if not res['ok']:
        raise tlc.MachineryError(res['out'][-2000:])
    rep.add_tlc(res)
    for t in res['tuples']:
        if t[0] == 'S':
            s = json.loads(t[1])
            if len(s) == 3:
                out.append(s)
    return out


def run(replay=None):
    import_hpl()
    rep = Report('C16')
    thorough = tier() == 'thorough'
    rnd = rng('c16')
    scheds = schedules(thorough, rep)
    rep.count('schedules_generated', len(scheds))
    events, info = [], {}
    eid = 0
    tid = 0
    QUERY = {'str', 'external_references', 'iterate', 'is_fully_typed', 'eq_hash', 'contains_reference', 'contains_self_reference',
             'get_conjuncts', 'get_disjuncts', 'sanity_check', 'aliases_events', 'repr'}
    nseeds = len(SEEDS)
    prop_seeds = [i for i, (e, _) in enumerate(SEEDS) if e in ('property', 'specification')]
    pred_seeds = [i for i in range(nseeds) if i not in prop_seeds]
    PROP_OPS = {'canonical_form', 'type_check_references', 'aliases_events', 'sanity_check'}

    def seeds_for(s, k):
        pool = prop_seeds if any(c['op'] in PROP_OPS for c in s) else pred_seeds
        return rnd.sample(pool, min(k, len(pool)))
    pairs = []
    rest = []
    for s in scheds:
        if len(s) == 1:
            pairs += [(s, sd) for sd in range(nseeds)]                      # every single call on every seed
        elif len(s) == 2 and s[0]['op'] not in QUERY and s[1]['op'] not in QUERY and s[1]['sel'] in ('root', 'result', 'child1'):
            # a call that hands out a result, followed by another rewriting / copying call: on a few seeds each
            pairs += [(s, sd) for sd in seeds_for(s, 4 if thorough else 1)]
        else:
            rest += [(s, sd) for sd in seeds_for(s, 2 if thorough else 1)]
    extra = 40000 if thorough else 2500
    pairs += rnd.sample(rest, min(len(rest), extra))
    done = 0
    for sched, sd in pairs:
        entry, text = SEEDS[sd]
        o, root = call_parser(entry, text)
        if o != 'ast':
            raise tlc.MachineryError('seed does not parse: %r %s' % (text, o))
        handles = [('h0', root)]
        last = None
        tid += 1
        steps = [{'step': 0, 'op': 'parse', 'sel': 'root', 'out': 'ok', 'but': ['na']}]
        useful = False
        snaps = [[[h, project(x, ids=True)] for h, x in handles]]
        for k, c in enumerate(sched):
            tgt = select(root, c['sel'], last)
            out, res, but = apply(c['op'], tgt, root, newalias='M%d' % tid)
            if out != 'na':
                useful = True
            for r in res:
                handles.append(('h%d' % len(handles), r))
            if res:
                last = res[-1]
            steps.append({'step': k + 1, 'op': c['op'], 'sel': c['sel'], 'out': out, 'but': but})
            snaps.append([[h, project(x, ids=True)] for h, x in handles])
        if not useful:
            continue
        done += 1
        for st, sn in zip(steps, snaps):
            eid += 1
            ev = dict(st)
            ev.update({'id': eid, 'tid': tid, 'heap': sn})
            events.append(ev)
            info[eid] = {'seed': text, 'schedule': ['%s@%s' % (c['op'], c['sel']) for c in sched], 'step': st['step'], 'op': st['op'], 'out': st['out']}
            rep.clause('%s:%s' % (st['op'], 'ok' if st['out'] == 'ok' else ('na' if st['out'] == 'na' else 'exc')))
    rep.count('schedules_replayed', done)
    # canary: narrow a stored type inside an old handle at step 1
    canaries = []
    for i, ev in enumerate(events):
        if ev['step'] == 1 and ev['out'] == 'ok' and i > 0:
            c0 = copy.deepcopy(events[i - 1]); c1 = copy.deepcopy(ev)
            c0['id'], c1['id'] = CANARY_BASE + 1, CANARY_BASE + 2
            c0['tid'] = c1['tid'] = CANARY_BASE
            snap = c1['heap'][0][1]
            node = snap
            while isinstance(node, dict) and 'dt' not in node:
                nxt = [v for v in node.values() if isinstance(v, dict) and 'cls' in v]
                if not nxt:
                    break
                node = nxt[0]
            if isinstance(node, dict) and 'dt' in node:
                node['dt'] = ['MESSAGE'] if node['dt'] != ['MESSAGE'] else ['BOOL']
                canaries = [c0, c1]
                break
    res = tlc.validate_batch('T_C16', events + canaries, group_key='tid', heap='3g')
    rep.add_tlc(res)
    rep.add_traces(done)
    rep.cov['events'] = res['consumed'] - len(canaries)
    rep.cov['canaries_rejected'] = 1 if canaries else 0
    for i, clause in split_canaries(res, [CANARY_BASE + 2] if canaries else []):
        if i == CANARY_BASE + 1:
            continue
        inf = info[i]
        cl = clause.split('after:')[0] if 'after:' in clause else clause
        rep.violation(signature(clause, inf), '%s violated by %s in schedule %s on seed %r' % (cl, inf['op'], inf['schedule'], inf['seed']), inf)
    for e in events[:: max(1, len(events) // 8)]:
        rep.sample(info[e['id']])
    return rep.finish()


def signature(clause, inf):
    if clause.startswith('Immutable('):
        return 'Immutable|%s|%s' % (inf['op'], inf['seed'])
    return '%s|%s|%s' % (clause, inf['op'], inf['seed'])
