"""C19 - The command-line tool's exit status and JSON output are faithful."""
import contextlib
import copy
import io
import json
import math
import os
import subprocess
import sys
import tempfile
from enum import Enum

import attr

from harness import grammar, render, tlc
from harness.common import CANARY_BASE, REPO, Report, import_hpl, rng, split_canaries, tier
from harness.corpus import sentences
from harness.drive import call_parser


def expected_doc(o):
    """Independent mirror of an AST as a JSON value: field for field over attrs fields; enum -> value;
    non-finite float -> None; tuples -> lists; mappings -> objects."""
    if attr.has(type(o)):
        return {f.name: expected_doc(getattr(o, f.name)) for f in attr.fields(type(o))}
    if isinstance(o, Enum):
        v = o.value
        return expected_doc(v) if not isinstance(v, Enum) else v
    if isinstance(o, float) and (math.isinf(o) or math.isnan(o)):
        return None
    if isinstance(o, (list, tuple)):
        return [expected_doc(x) for x in o]
    if isinstance(o, dict):
        return {str(k): expected_doc(v) for k, v in o.items()}
    if isinstance(o, str):
        return str(o)
    return o


def first_diff(a, b, path='$'):
    if type(a) != type(b) and not (isinstance(a, (int, float)) and isinstance(b, (int, float)) and not isinstance(a, bool) and not isinstance(b, bool)):
        return path + ':type'
    if isinstance(a, dict):
        if set(a) != set(b):
            return path + ':keys(%s)' % ','.join(sorted(set(a) ^ set(b)))
        for k in a:
            d = first_diff(a[k], b[k], path + '.' + k)
            if d:
                return d
        return ''
    if isinstance(a, list):
        if len(a) != len(b):
            return path + ':len'
        for i, (x, y) in enumerate(zip(a, b)):
            d = first_diff(x, y, '%s[%d]' % (path, i))
            if d:
                return d
        return ''
    return '' if a == b else path + ':value'


def strict_load(text):
    def bad(c):
        raise ValueError('non-strict JSON constant ' + c)
    return json.loads(text, parse_constant=bad)


def run_cli(argv):
    from hpl.cli import main
    out, err = io.StringIO(), io.StringIO()
    code = None
    with contextlib.redirect_stdout(out), contextlib.redirect_stderr(err):
        try:
            code = main(argv)
        except SystemExit as e:
            code = e.code if isinstance(e.code, int) else 1
        except BaseException as e:  # noqa
            code = 'exc:' + type(e).__name__
    return code, out.getvalue(), err.getvalue()


def observe(kind, text, want_json, tmpdir, rnd, missing=False):
    entry = 'property' if kind == 'p' else 'specification'
    argv = []
    if want_json:
        argv += ['-o', 'json']
    readable = True
    if kind == 'p':
        argv += ['-p', text]
    else:
        path = os.path.join(tmpdir, 'f%d.hpl' % rnd.randrange(10 ** 9))
        if missing:
            readable = False
        else:
            with open(path, 'w', encoding='utf-8', newline='') as f:
                f.write(text)
            # "the file parses": the text of the file as any text reader sees it (line ends \r\n and \r read as \n, a
            # convention of text files, not of HPL)
            with open(path, encoding='utf-8') as f:
                text = f.read()
        argv.append(path)
    direct, obj = call_parser(entry, text)
    if text.startswith('-') and kind == 'p':
        argv = argv[:-2] + ['-p', '--', text] if False else argv
    code, out, err = run_cli(argv)
    ev = {'asprop': kind == 'p', 'json': want_json, 'readable': readable, 'direct': direct,
          'code': code if isinstance(code, int) else 98, 'stdout': 'empty', 'strict': False, 'mirror': False,
          'mirror_path': '', 'diag': bool((out + err).strip())}
    body = out.strip()
    if body:
        try:
            json.loads(body)
            ev['stdout'] = 'one_json'
        except ValueError:
            ev['stdout'] = 'other'
    if ev['stdout'] == 'one_json':
        try:
            doc = strict_load(body)
            ev['strict'] = True
        except ValueError:
            doc = None
        if doc is not None and direct == 'ast':
            d = first_diff(expected_doc(obj), doc)
            ev['mirror'] = d == ''
            ev['mirror_path'] = d
    return ev, argv


def run(replay=None):
    import_hpl()
    rep = Report('C19')
    thorough = tier() == 'thorough'
    rnd = rng('c19')
    m = tlc.run_model('HplCli')
    rep.add_tlc(m)
    if not m['ok']:
        raise tlc.MachineryError(m['out'][-2000:])
    sents, st = sentences(thorough)
    rep.add_tlc(st)
    props = [' '.join(render.substitute(s, lits=grammar.STD_LITS)[0]) for name, entry, s in sents if entry == 'property']
    if len(props) > (3000 if thorough else 500):
        props = rnd.sample(props, 3000 if thorough else 500)
    props += ['globally: no a {x = NAN}', 'globally: no a {x < INF}', 'globally: some a', 'globally: some a within 100 ms',
              'globally: no a {x > PI and y in {1, 2.5} and z in ![0 to 1]}', 'after a as A: b {x = @A.x} causes (c or d {forall k in xs: @k > 0})',
              'globally: no a {x >', 'globally: no a {x = @B.x}', 'globally: no a {x + "s" > 1}', 'globally: no a {foo(x) > 1}', '',
              'globally: no a {s = "q\\"uote"}', 'globally: no a {x = 1' + '0' * 320 + '}', 'globally: no a {x = 7' + '3' * 4400 + '}', 'globally: no a {x > 0} within 1' + '0' * 4400 + ' s',
              'globally: no a {x in {1, 2' + '0' * 5000 + ', 3}}', 'globally: no a {x > 9223372036854775808}',
              'globally: no a {x < 1e999}', 'globally: no a {x <= 1.7976931348623157e308}', 'globally: some a within 1.7976931348623157e308 s', 'globally: no a {x > 5e-324 and y < 2.2250738585072014e-308}', 'globally: no a {x > 1}\nglobally: some b', '# id: first\nglobally: no a\n# id: second\nafter b as B: c {y = @B.y} causes d within 100 ms',
              'globally: no a {frame_id = "$HOME"}', 'globally: no a {s = "~"}', 'globally: no a {s = "${PATH}/x" and t = "~root"}', 'globally: some ~/a', 'globally: no $HOME',
              'globally: no a {s = "%TEMP%" and t = "$$" and u = "`id`" and v = "$(id)"}', '~', '$HOME', 'globally: no a {s = "\\$HOME"}',
              'globally: no a globally: no b', '# id: p1\nglobally: no a', '# id: p1\n# id: p2\nglobally: no a', 'globally: no a {x = 18446744073709551615 and y in [-1e400 to 1e400]}', 'globally: (a or a) causes b', 'globally: no a {-x ** 2 = abs(y)}']
    files = ['# id: p1\n# title: "T"\nglobally: no a {x > 0}\n\n# id: p2\nafter b: some c within 1 s',
             'globally: no a\nglobally: no b {x = NAN}', '# id: p1\n# id: p2\nglobally: no a', 'globally: no a\nglobally: no',
             '', '# foo: "x"\nglobally: no a', 'globally: no a {x = @Z.x}\nglobally: some b']
    for _ in range(60 if thorough else 20):
        files.append('\n'.join(rnd.sample(props, rnd.randrange(1, 4))))
    # files with characters that are neither ordinary text nor HPL white space everywhere (inside strings: content; between
    # tokens: white space or illegal), and other line-end conventions: the tool must do what the file parser does with the text
    from harness.checks.c18 import exotic_variants
    for base in ('# title: "T 1"\nglobally: no a {s = "lit" and x > 0}', '# id: p1\n# description: "d 1"\nafter b: some c {x > 0} within 1 s\nglobally: no d'):
        files.extend(exotic_variants(base)[:: 1 if thorough else 2])
    files += ['globally: no a\r\nglobally: no b\r\n', 'globally: no a\rglobally: no b', '\ufeffglobally: no a', 'globally: no a {s = "x\r\ny"}']
    tmpdir = tempfile.mkdtemp(prefix='c19-', dir=tlc.BUILD if os.path.isdir(tlc.BUILD) else None)
    events, info = [], {}
    try:
        for text in props:
            for j in (True, False):
                if not j and rnd.random() < 0.5:
                    continue
                ev, argv = observe('p', text, j, tmpdir, rnd)
                ev['id'] = len(events) + 1
                events.append(ev)
                info[ev['id']] = argv
        for text in files:
            for j in (True, False):
                ev, argv = observe('f', text, j, tmpdir, rnd)
                ev['id'] = len(events) + 1
                events.append(ev)
                info[ev['id']] = argv + ['<<file content: %r>>' % text[:200]]
        ev, argv = observe('f', 'globally: no a', True, tmpdir, rnd, missing=True)
        ev['id'] = len(events) + 1
        events.append(ev)
        info[ev['id']] = argv
        # real processes (real exit status)
        env = dict(os.environ)
        env['PYTHONPATH'] = os.path.join(REPO, 'src')
        for text in (['globally: no a {x = NAN}', 'globally: no a {x >', 'globally: no a {x = @B.x}', 'globally: some a within 100 ms'] + rnd.sample(props, 6 if not thorough else 30)):
            direct, obj = call_parser('property', text)
            p = subprocess.run([sys.executable, '-m', 'hpl', '-o', 'json', '-p', text], env=env, stdout=subprocess.PIPE, stderr=subprocess.PIPE, text=True, timeout=120)
            ev = {'asprop': True, 'json': True, 'readable': True, 'direct': direct, 'code': p.returncode, 'stdout': 'empty', 'strict': False,
                  'mirror': False, 'mirror_path': '', 'diag': bool((p.stdout + p.stderr).strip())}
            body = p.stdout.strip()
            if body:
                try:
                    json.loads(body); ev['stdout'] = 'one_json'
                except ValueError:
                    ev['stdout'] = 'other'
            if ev['stdout'] == 'one_json':
                try:
                    doc = strict_load(body); ev['strict'] = True
                    if direct == 'ast':
                        d = first_diff(expected_doc(obj), doc); ev['mirror'] = d == ''; ev['mirror_path'] = d
                except ValueError:
                    pass
            ev['id'] = len(events) + 1
            events.append(ev)
            info[ev['id']] = ['python -m hpl -o json -p', text]
    finally:
        import shutil
        shutil.rmtree(tmpdir, ignore_errors=True)
    for e in events:
        rep.clause('%s:%s:%s' % ('p' if e['asprop'] else 'file', 'json' if e['json'] else 'nojson', e['direct']))
    canaries = []
    for ev in events:
        if ev['direct'] == 'ast' and ev['json'] and ev['mirror']:
            c = copy.deepcopy(ev); c['id'] = CANARY_BASE + 1; c['code'] = 1
            c2 = copy.deepcopy(ev); c2['id'] = CANARY_BASE + 2; c2['strict'] = False
            canaries = [c, c2]
            break
    res = tlc.validate_batch('T_C19', events + canaries)
    rep.add_tlc(res)
    rep.add_traces(res['consumed'] - len(canaries))
    rep.cov['canaries_rejected'] = len(canaries)
    for i, clause in split_canaries(res, [c['id'] for c in canaries]):
        rep.violation('%s|%s' % (clause.split(':')[0], ' '.join(info[i])[:300]), '%s for: hpl %s' % (clause, ' '.join(info[i])[:300]),
                      {'argv': info[i], 'clause': clause, 'observation': next(e for e in events if e['id'] == i)})
    for e in events[:: max(1, len(events) // 8)]:
        rep.sample({'argv': info[e['id']], 'exit': e['code'], 'stdout': e['stdout']})
    rep.assumptions = ['the deep field-for-field comparison of the JSON document with the AST is computed by the harness (independent attrs walker); TLA+ decides the process-level properties']
    return rep.finish()
