"""C17 - Schema checking of references is exact."""
import copy

from harness import grammar, render, tlc
from harness.common import CANARY_BASE, keep, Report, import_hpl, rng, split_canaries, tier
from harness.drive import call_parser, exc_name
from harness.project import project


def schema():
    from hpl import types as T
    deep = T.MessageType('Deep', fields={'z': T.FLOAT64})
    inner = T.MessageType('Inner', fields={'n': T.FLOAT64, 't': T.STRINGS, 'deep': deep})
    other = T.MessageType('Other', fields={'n': T.STRINGS, 'q': T.FLOAT64, 'arr': T.ArrayType('float64[]', subtype=T.FLOAT64), 'far': T.ArrayType('float64[2]', subtype=T.FLOAT64, length=2)})
    m = T.MessageType('M', fields={
        'n': T.FLOAT64, 'k': T.INT32, 'b': T.BOOLEANS, 's': T.STRINGS,
        'xs': T.ArrayType('float64[]', subtype=T.FLOAT64), 'fx': T.ArrayType('float64[3]', subtype=T.FLOAT64, length=3),
        'fz': T.ArrayType('float64[0]', subtype=T.FLOAT64, length=0), 'f1': T.ArrayType('float64[1]', subtype=T.FLOAT64, length=1),
        'm': inner, 'ms': T.ArrayType('Inner[]', subtype=inner), 'mf': T.ArrayType('Inner[2]', subtype=inner, length=2),
        'os': T.ArrayType('Other[]', subtype=other), 'bs': T.ArrayType('bool[]', subtype=T.BOOLEANS),
        'gg': T.ArrayType('Inner[][]', subtype=T.ArrayType('Inner[]', subtype=inner)),
        'ra': T.ArrayType('RowA[]', subtype=T.MessageType('RowA', fields={'items': T.ArrayType('Inner[]', subtype=inner)})),
        'rb': T.ArrayType('RowB[]', subtype=T.MessageType('RowB', fields={'items': T.ArrayType('Other[]', subtype=other)}))},
        constants={'K': (T.UINT8, 7)})
    return {'t': m, 'u': m, 'w': other}


def rotated_schema():
    """The same field tree with every primitive type replaced by another one (number -> string -> boolean -> number):
    used to put ANOTHER schema check between two checks against schema() on one object."""
    from hpl import types as T

    def rot(t):
        if isinstance(t, T.MessageType):
            return T.MessageType(t.name, fields={n: rot(x) for n, x in t.fields.items()}, constants=dict(t.constants))
        if isinstance(t, T.ArrayType):
            return T.ArrayType(t.name, subtype=rot(t.subtype), length=t.length)
        if t.type == T.DataType.NUMBER:
            return T.STRINGS
        if t.type == T.DataType.STRING:
            return T.BOOLEANS
        return T.FLOAT64
    return {k: rot(v) for k, v in schema().items()}


def tok(t):
    """Projection of a TypeToken (reads the declared attributes, not the helpers under test)."""
    from hpl import types as T
    from harness.project import dt_names
    if isinstance(t, T.MessageType):
        return {'k': 'msg', 'name': t.name, 'fields': {n: tok(x) for n, x in t.fields.items()},
                'constants': {n: tok(x[0]) for n, x in t.constants.items()}}
    if isinstance(t, T.ArrayType):
        return {'k': 'arr', 'name': t.name, 'sub': tok(t.subtype), 'len': int(t.length)}
    names = dt_names(t.type)
    return {'k': 'prim', 'name': t.name, 'type': names[0] if len(names) == 1 else 'AMBIGUOUS'}


def hexs(n):
    return ('-' if n < 0 else '') + format(abs(n), 'x')


def helper_events():
    from hpl import types as T
    sc = schema()
    evs = []
    names = ['n', 'k', 'xs', 'm', 'K', 'nope', 'deep', 'z', 'q', 't']
    toks = [sc['t'], sc['w'], sc['t'].fields['m'], sc['t'].fields['m'].fields['deep'],
            T.MessageType('Empty'), T.MessageType('OnlyConst', constants={'C': (T.INT8, 1)}),
            T.MessageType('Nest', fields={'ab': T.MessageType('AB', fields={'x': T.UINT8, 'y': T.MessageType('Y', fields={'z': T.STRINGS})}), 'c': T.BOOLEANS})]
    for t in toks:
        ev = {'kind': 'helper', 'tok': tok(t), 'names': names, 'contains': [], 'typeof': []}
        for n in names:
            ev['contains'].append(bool(t.contains_name(n)))
            try:
                ev['typeof'].append(['ok', t.get_type_of(n).name])
            except Exception as e:  # noqa
                ev['typeof'].append(['exc', exc_name(e)])
        try:
            lf = t.leaf_fields()
            ev['leaf'] = ['ok', [[k, v.name] for k, v in lf.items()]]
        except Exception as e:  # noqa
            ev['leaf'] = ['exc', [], exc_name(e)]
        evs.append(ev)
    for name, w, signed in (('UINT8', 8, False), ('UINT16', 16, False), ('UINT32', 32, False), ('UINT64', 64, False),
                            ('INT8', 8, True), ('INT16', 16, True), ('INT32', 32, True), ('INT64', 64, True)):
        t = getattr(T, name)
        evs.append({'kind': 'int', 'name': name, 'width': w, 'signed': signed, 'min': hexs(t.min_value), 'max': hexs(t.max_value)})
        t2 = getattr(T.RangedType, name.lower())()
        evs.append({'kind': 'int', 'name': name + '()', 'width': w, 'signed': signed, 'min': hexs(t2.min_value), 'max': hexs(t2.max_value)})

    def ctor(what, must, fn):
        try:
            fn()
            raised = False
        except Exception:  # noqa
            raised = True
        evs.append({'kind': 'ctor', 'what': what, 'mustraise': must, 'raised': raised})
    for lo, hi in ((0, 1), (1, 0), (5, 5), (-1, -2), (0, 255), (2, 1.5)):
        ctor('RangedType(min=%r,max=%r)' % (lo, hi), hi < lo, lambda lo=lo, hi=hi: T.RangedType('r', type=T.DataType.NUMBER, min_value=lo, max_value=hi))
    for n in (-3, -2, -1, 0, 1, 3):
        ctor('ArrayType(length=%d)' % n, n < -1, lambda n=n: T.ArrayType('a', subtype=T.UINT8, length=n))
    for ty, vals, must in ((T.DataType.BOOL, (True, False), False), (T.DataType.BOOL, (True, 1), True), (T.DataType.NUMBER, (1, 2.5), False),
                           (T.DataType.NUMBER, (1, 'a'), True), (T.DataType.STRING, ('a', 'b'), False), (T.DataType.STRING, ('a', 2), True),
                           (T.DataType.NUMBER, (), False)):
        ctor('EnumeratedType(%s,%r)' % (ty.name, vals), must, lambda ty=ty, vals=vals: T.EnumeratedType('e', type=ty, values=vals))
    return evs


def run(replay=None):
    import_hpl()
    rep = Report('C17')
    thorough = tier() == 'thorough'
    rnd = rng('c17')
    sc = schema()
    scj = {k: tok(v) for k, v in sc.items()}
    sents, r = grammar.enumerate_shapes('schema')
    rep.add_tlc(r)
    events, info = [], {}
    for s in sents:
        toks, _ = render.substitute(s, lits=grammar.STD_LITS)
        text = ' '.join(toks)
        if not keep(text):
            continue
        o, p = call_parser('property', text)
        if o != 'ast':
            rep.skip('parser:' + o)
            continue
        try:
            p.type_check_references(sc)
            out, msg = 'ok', ''
        except Exception as e:  # noqa
            out, msg = exc_name(e), str(e)[:300]
        events.append({'kind': 'check', 'prop': project(p, ids=False), 'schema': scj, 'out': out})
        info[len(events)] = (text, out, msg)
        rep.clause('check:' + out)
    # sessions: ONE property object checked against schema A, then a variant B (other types for some fields), then A again;
    # every call must give the verdict HplTyping derives for THAT schema (schema checking is a pure function)
    from hpl import types as T
    scb = dict(sc)
    mb = sc['t']
    fb = dict(mb.fields)
    fb.update({'s': T.FLOAT64, 'n': T.STRINGS, 'b': T.FLOAT64})
    scb['t'] = scb['u'] = T.MessageType('M2', fields=fb, constants=dict(mb.constants))
    scbj = {k: tok(v) for k, v in scb.items()}
    nsess = 0
    for s in sents:
        toks, _ = render.substitute(s, lits=grammar.STD_LITS)
        text = ' '.join(toks)
        if not any(x in text for x in (' = k', '= s )', 'in {', '!= @A . s')) or rnd.random() > (1.0 if thorough else 0.6):
            continue
        o, p = call_parser('property', text)
        if o != 'ast':
            continue
        nsess += 1
        snap = project(p, ids=False)      # the property as parsed: the oracle judges every call against THIS value
        for tag, schema_py, schema_js in (('A', sc, scj), ('B', scb, scbj), ('A', sc, scj), ('B', scb, scbj)):
            try:
                p.type_check_references(schema_py)
                out, msg = 'ok', ''
            except Exception as e:  # noqa
                out, msg = exc_name(e), str(e)[:300]
            events.append({'kind': 'check', 'prop': snap, 'schema': schema_js, 'out': out})
            info[len(events)] = ('[same object, schema %s] %s' % (tag, text), out, msg)
            rep.clause('session:%s:%s' % (tag, out))
    rep.count('multi_schema_sessions', nsess)
    for ev in helper_events():
        events.append(ev)
        info[len(events)] = (ev['kind'] + ':' + str(ev.get('what', ev.get('name', ev.get('tok', {}).get('name')))), '', '')
    for i, ev in enumerate(events):
        ev['id'] = i + 1
    canaries = []
    for ev in events:
        if ev['kind'] == 'check' and ev['out'] == 'ok':
            c = copy.deepcopy(ev); c['id'] = CANARY_BASE + 1; c['out'] = 'TypeError'; canaries.append(c)
            break
    for ev in events:
        if ev['kind'] == 'check' and ev['out'] == 'TypeError':
            c = copy.deepcopy(ev); c['id'] = CANARY_BASE + 2; c['out'] = 'ok'; canaries.append(c)
            break
    res = tlc.validate_batch('T_C17', events + canaries)
    rep.add_tlc(res)
    rep.add_traces(res['consumed'] - len(canaries))
    rep.cov['canaries_rejected'] = len(canaries)
    rep.cov['must_succeed'] = res['stats'].get('must_succeed', 0)
    rep.cov['must_fail'] = res['stats'].get('must_fail', 0) 
    for i, clause in split_canaries(res, [c['id'] for c in canaries]):
        text, out, msg = info[i]
        rep.violation('%s|%s' % (clause, text), '%s: %r -> %s %s' % (clause, text, out, msg), {'input': text, 'clause': clause, 'outcome': out, 'message': msg})
    for i in list(info)[:: max(1, len(info) // 8)]:
        rep.sample({'input': info[i][0], 'outcome': info[i][1]})
    return rep.finish()
