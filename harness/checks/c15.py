"""C15 - Reference queries report exactly the references that occur."""
import copy

import attr

from harness import tlc
from harness.common import CANARY_BASE, Report, import_hpl, split_canaries, tier
from harness.corpus import accepted, accepted_families
from harness.project import project
from harness.rewrites import applicable, results_of, run_call

ALPHA = ['v', 'x', 'A', 'f', 'a', 'zz', 'k', 'j', 'y', 'i']


def subnodes(obj):
    """All AST objects reachable through attrs fields (independent of children()/iterate())."""
    from hpl.ast.base import HplAstObject
    out = []
    stack = [obj]
    while stack:
        o = stack.pop()
        out.append(o)
        for f in attr.fields(type(o)):
            v = getattr(o, f.name)
            if isinstance(v, HplAstObject):
                stack.append(v)
            elif isinstance(v, (tuple, list)):
                stack.extend(x for x in v if isinstance(x, HplAstObject))
    return out


def ask(fn):
    try:
        return ['ok', fn()]
    except Exception as e:  # noqa
        return ['exc', type(e).__name__]


def truth(v):
    return bool(v)


def query_event(o):
    from hpl.ast.expressions import HplExpression
    from hpl.ast.predicates import HplPredicate, HplPredicateExpression
    from hpl.ast.events import HplEvent
    NA = ['na']
    keep = {}
    ev = {'node': project(o, ids=True, keep=keep), 'ext': NA, 'cref': NA, 'cself': NA, 'cdef': NA,
          'aliases': NA, 'own': NA, 'iter': NA}
    if isinstance(o, (HplExpression, HplPredicate, HplEvent)):
        ev['ext'] = ask(lambda: sorted(o.external_references()))
        ev['cref'] = ask(lambda: [[a, truth(o.contains_reference(a))] for a in ALPHA])
        ev['cself'] = ask(lambda: truth(o.contains_self_reference()))
    if isinstance(o, HplExpression):
        ev['cdef'] = ask(lambda: [[a, truth(o.contains_definition(a))] for a in ALPHA])
    if isinstance(o, HplEvent):
        ev['aliases'] = ask(lambda: list(o.aliases()))
    if isinstance(o, HplPredicateExpression):
        r = ask(lambda: o.check_some_self_references())
        ev['own'] = ['ok', True] if r[0] == 'ok' else r
    ev['iter'] = ask(lambda: [str(id(x)) for x in o.iterate()])
    return ev


def extra_derivations(obj):
    from hpl.ast.expressions import HplExpression, HplLiteral, HplThisMessage, HplVarReference
    from hpl.ast.predicates import HplPredicate
    out = []
    if isinstance(obj, (HplExpression, HplPredicate)):
        out.append(('replace_var_reference(v->this)', lambda: obj.replace_var_reference('v', HplThisMessage())))
        out.append(('replace_var_reference(A->@Z)', lambda: obj.replace_var_reference('A', HplVarReference('@Z'))))
        out.append(('replace_self_reference(@Q)', lambda: obj.replace_self_reference(HplVarReference('@Q'))))
    return out


def run(replay=None):
    import_hpl()
    rep = Report('C15')
    from harness.common import rng
    rnd = rng('c15')
    thorough = tier() == 'thorough'
    asts, stats = accepted(thorough, limit=60000 if thorough else 12000)
    rep.add_tlc(stats)
    fams, st2 = accepted_families(['slots', 'quants', 'funs', 'incl', 'alias'], cap=None if thorough else 500, salt='c15f')
    rep.add_tlc(st2)
    qd, st3 = accepted_families(['qdom'], salt='c15q')       # quantifiers nested inside the domain of a quantifier
    rep.add_tlc(st3)
    asts = asts + fams + qd
    # events that exist only as objects: the events of the shapes of HplShapes (family disj), built through the API one by
    # one - among them disjunctions in which an alternative refers to the alias of a sibling, which no accepted property contains
    from harness import build, grammar, render
    dsh, st4 = grammar.enumerate_shapes('disj')
    rep.add_tlc(st4)
    qsh, st5 = grammar.enumerate_shapes('quant')        # ... and events with a reference to a name outside a quantifier binding it
    rep.add_tlc(st5)
    wsh, st6 = grammar.enumerate_shapes('width')         # ... and disjunctions of width 3 and 4, with aliases
    rep.add_tlc(st6)
    dsh = dsh + qsh + rnd.sample(wsh, min(len(wsh), 400 if thorough else 120))
    nev = 0
    seen_ev = set()
    for sh in dsh:
        toks, exp = render.substitute(sh, lits=grammar.STD_LITS)
        exp = grammar.fix_var_names(exp)
        for pos in (exp['scope']['activator'], exp['scope']['terminator'], exp['pattern']['trigger'], exp['pattern']['behaviour']):
            if not isinstance(pos, dict) or pos.get('cls') not in ('HplSimpleEvent', 'HplEventDisjunction'):
                continue
            key = repr(pos)
            if key in seen_ev:
                continue
            seen_ev.add(key)
            try:
                evobj = build.event(pos)
            except Exception:  # noqa  (e.g. duplicate channels: the constructor rejects it)
                continue
            asts.append(('event built through the API: %s' % evobj, 'event', evobj))
            nev += 1
            # the same alternatives nested to the left / with the nested disjunction first (shapes no parser produces)
            try:
                from harness.checks.c11 import left_nest
                from hpl.ast.events import HplEventDisjunction
                alts = list(evobj.simple_events())
                if len(alts) >= 3:
                    ln = left_nest(evobj)
                    asts.append(('event built through the API, nested to the left: %s' % ln, 'event', ln))
                    mid = HplEventDisjunction(HplEventDisjunction(alts[0], alts[1]), HplEventDisjunction(alts[2], alts[3])) if len(alts) >= 4 \
                        else HplEventDisjunction(alts[0], HplEventDisjunction(alts[1], alts[2]))
                    asts.append(('event built through the API, other nesting: %s' % mid, 'event', mid))
                    nev += 2
            except Exception:  # noqa
                pass
    # every nesting of three and four alternatives, with aliases on all / some of them
    from hpl.ast.events import HplEventDisjunction, HplSimpleEvent

    def nestings(es):
        if len(es) == 1:
            return [es[0]]
        out = []
        for i in range(1, len(es)):
            for l in nestings(es[:i]):
                for r in nestings(es[i:]):
                    out.append(('or', l, r))
        return out

    def build_nest(t):
        if len(t) == 3 and t[0] == 'or':
            return HplEventDisjunction(build_nest(t[1]), build_nest(t[2]))
        return HplSimpleEvent.publish(t[0], alias=t[1])
    for alts in ([('a', 'A'), ('b', 'B'), ('c', 'C')], [('a', 'A'), ('b', None), ('c', 'C'), ('d', 'D')], [('a', None), ('b', 'B'), ('c', 'C'), ('d', None)]):
        for t in nestings(alts):
            evobj = build_nest(t)
            asts.append(('event built through the API: %s [%r]' % (evobj, t), 'event', evobj))
            nev += 1
    rep.count('events_built_through_the_api', nev)
    # quantifiers in positions that are not conditions: under a conversion function, as a member of a set, inside an index,
    # inside a range bound, inside the domain of another quantifier (the traversal functions see them wherever they are)
    from harness.drive import call_parser
    QIN = ['int((exists y in ys: @y > 0)) > 0', 'flag in {(exists y in ys: @y > 0), True}', 'str((forall y in ys: @y > 0)) = "True"',
           'float((exists y in ys: @y > 0)) + 1 > 0', 'bool((exists y in ys: @y > 0))', 'xs[int((exists y in ys: @y > 0))] > 0',
           'x in [0 to int((exists y in ys: @y > 0))]', 'forall z in {(exists y in ys: @y > 0)}: @z', 'len({(exists y in ys: @y > 0), p}) > 0',
           'forall z in xs[int((exists y in ys: @y > 0))]: @z > 0', 'max({int((exists y in ys: @y > @A.x))}) > 0 and (exists w in ws: @w.x > 0)',
           'm.xs[int((forall v in vs: @v))].f > 0', '- int((exists y in ys: @y > 0)) < 0', 'abs(int((exists A in ys: @A > 0))) = 1',
           '{(exists y in ys: @y > 0)} = {True}', 'x in ![int((exists y in ys: @y > 0)) to 9]!']
    nq = 0
    for t in QIN:
        o, obj = call_parser('condition', t)
        if o == 'ast':
            asts.append((t, 'condition', obj))
            nq += 1
    rep.count('quantifiers_in_non_boolean_positions', nq)
    events, info = [], {}
    eid = 0
    slot_cov = {}
    for text, entry, obj in asts:
        for o in subnodes(obj):
            eid += 1
            ev = query_event(o)
            ev['id'] = eid
            events.append(ev if len(events) < 4000 else tlc.pack(ev))     # later events are kept as JSON text (memory)
            info[eid] = (text, type(o).__name__)
            slot_cov[type(o).__name__] = slot_cov.get(type(o).__name__, 0) + 1
        # trees DERIVED from an already queried tree (copy-with-changes, substitutions, rewrites)
        if rnd.random() < (1.0 if thorough else 0.3):
            for name, thunk in applicable(obj) + extra_derivations(obj):
                out, r = run_call(thunk)
                if out != 'ok':
                    continue
                for d in results_of(r):
                    if d is obj:
                        continue
                    for o in subnodes(d)[:6]:
                        eid += 1
                        ev = query_event(o)
                        ev['id'] = eid
                        events.append(ev if len(events) < 4000 else tlc.pack(ev))
                        info[eid] = ('%s of %s' % (name, text), type(o).__name__)
                        slot_cov['derived'] = slot_cov.get('derived', 0) + 1
    rep.cov['nodes_by_class'] = slot_cov
    # canaries
    canaries = []
    for ev in events:
        if not isinstance(ev, dict):
            break
        if ev['ext'][0] == 'ok' and ev['ext'][1] and len(canaries) < 1:
            c = copy.deepcopy(ev); c['id'] = CANARY_BASE + 1; c['ext'] = ['ok', []]; canaries.append(c)
        if ev['iter'][0] == 'ok' and len(ev['iter'][1]) >= 3 and len(canaries) == 1:
            c = copy.deepcopy(ev); c['id'] = CANARY_BASE + 2
            c['iter'][1][1], c['iter'][1][2] = c['iter'][1][2], c['iter'][1][1]; canaries.append(c)
        if ev['cself'][0] == 'ok' and len(canaries) == 2:
            c = copy.deepcopy(ev); c['id'] = CANARY_BASE + 3; c['cself'] = ['ok', not ev['cself'][1]]; canaries.append(c)
        if len(canaries) >= 3:
            break
    res = tlc.validate_batch('T_C15', events + canaries)
    rep.add_tlc(res)
    rep.add_traces(res['consumed'] - len(canaries))
    rep.cov['canaries_rejected'] = len(canaries)
    for i, clause in split_canaries(res, [c['id'] for c in canaries]):
        text, cls = info[i]
        rep.violation('%s|%s|%s' % (clause, cls, text), '%s wrong on a %s node of %r' % (clause, cls, text),
                      {'text': text, 'node_class': cls, 'clause': clause})
    for e in [x for x in events if isinstance(x, dict)][:: 600]:
        rep.sample({'text': info[e['id']][0], 'node': info[e['id']][1], 'ext': e['ext'], 'cself': e['cself']})
    return rep.finish()
