"""C08 - simplify preserves meaning."""
from harness.common import Report, import_hpl, rng, tier
from harness.rewrite_driver import Recorder, corrupt_first, derived_pass, family_texts, parse_inputs

FAMILIES_QUICK = ['num1w', 'bool1w', 'funs', 'incl', 'quants', 'slots', 'cmpbool', 'num2', 'bool2', 'cmp11', 'cancel', 'resolve', 'lincmp', 'powpow', 'shared']
FAMILIES_THOROUGH = FAMILIES_QUICK + ['num22', 'bool22', 'alias']


def canary(events):
    def ok(ev):
        return ev['out'] == 'ok' and ev['in'].get('cls') == 'HplBinaryOperator' and ev['in'].get('operator') == '<' \
            and ev['outs'][0].get('cls') == 'HplBinaryOperator' and ev['outs'][0].get('operator') == '<'

    def mut(c):
        c['outs'][0]['operator'] = '<='
    return corrupt_first(events, ok, mut, 1)


def run(replay=None):
    import_hpl()
    rep = Report('C08')
    thorough = tier() == 'thorough'
    rnd = rng('c08')
    rec = Recorder(rep, rnd, 64 if thorough else 32)
    texts = family_texts(list(FAMILIES_THOROUGH if thorough else FAMILIES_QUICK) + [('rand', 8000, 5) if thorough else ('rand', 1500, 4)], rep, rnd, cap=None if thorough else 2500)
    used = []
    for fam, text, entry, obj in parse_inputs(texts, ('expression', 'condition')):
        if entry == 'condition' and rnd.random() > 0.3:
            continue
        rec.simplify(text, obj)
        used.append((text, obj))
    rep.count('derived_after_use', derived_pass(used, rec.simplify, rnd, 1500 if thorough else 400))
    for i, clause in rec.validate(canary):
        inf = rec.info[i]
        rep.violation('%s|%s' % (clause, inf['text']), 'simplify(%r) -> %s violates %s' % (inf['text'], inf['result'] or inf['out'], clause), inf)
    for e in rec.dict_events()[:: max(1, len(rec.dict_events()) // 8)]:
        rep.sample({'input': rec.info[e['id']]['text'], 'output': rec.info[e['id']]['result'], 'valuations': len(e['rhos'])})
    return rep.finish()
