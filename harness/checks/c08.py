"""C08 - simplify preserves meaning."""
import copy

from harness import grammar, render, tlc
from harness.common import CANARY_BASE, Report, import_hpl, rng, split_canaries, tier
from harness.drive import call_parser, exc_name
from harness.project import project
from harness.valuations import valuations

FAMILIES_QUICK = ['num1w', 'bool1w', 'funs', 'incl', 'quants', 'num2', 'bool2', 'cmp11']
FAMILIES_THOROUGH = FAMILIES_QUICK + ['num22', 'bool22', 'alias']


def inputs(thorough, rnd, rep):
    fams = FAMILIES_THOROUGH if thorough else FAMILIES_QUICK
    out = []
    for fam in fams:
        sents, r = grammar.enumerate_family(fam)
        rep.add_tlc(r)
        if not thorough and len(sents) > 2500:
            sents = rnd.sample(sents, 2500)
        rep.count('family_' + fam, len(sents))
        for s in sents:
            toks, _ = render.substitute(s, lits=grammar.STD_LITS)
            out.append((fam, ' '.join(toks)))
    return out


def run(replay=None):
    import_hpl()
    from hpl.rewrite import simplify
    rep = Report('C08')
    thorough = tier() == 'thorough'
    rnd = rng('c08')
    events, info = [], {}
    eid = 0
    for fam, text in inputs(thorough, rnd, rep):
        for entry in (('expression', 'condition') if fam not in ('num2', 'num22', 'num1w') else ('expression',)):
            o, obj = call_parser(entry, text)
            if o != 'ast':
                rep.skip('parser:' + o)
                continue
            if entry == 'condition' and rnd.random() > 0.3:
                continue
            pin = project(obj, ids=False)
            try:
                r = simplify(obj)
                out, outs = 'ok', [project(r, ids=False)]
            except Exception as e:  # noqa
                out, outs = exc_name(e), []
            eid += 1
            events.append({'id': eid, 'op': 'simplify', 'in': pin, 'outs': outs, 'out': out,
                           'rhos': valuations(pin, limit=64 if thorough else 32, rnd=rnd)})
            info[eid] = (entry, text, out, str(r) if out == 'ok' else '')
            rep.clause('out:' + out)
    # canaries: x - 0 -> 0 style corruptions of a recorded output
    canaries = []
    for ev in events:
        if ev['out'] == 'ok' and ev['in'].get('cls') == 'HplBinaryOperator' and ev['in'].get('operator') == '<' \
                and ev['outs'][0].get('cls') == 'HplBinaryOperator' and ev['outs'][0].get('operator') == '<':
            c = copy.deepcopy(ev); c['id'] = CANARY_BASE + 1
            c['outs'][0]['operator'] = '<='
            canaries.append(c)
            break
    res = tlc.validate_batch('T_C08', events + canaries, heap='3g')
    rep.add_tlc(res)
    rep.add_traces(res['consumed'] - len(canaries))
    rep.cov['canaries_rejected'] = len(canaries)
    rep.cov['valuations_judged'] = res['stats'].get('judged', 0)
    for k in ('skipU', 'skipO', 'skipR'):
        rep.skip(k, res['stats'].get(k, 0))
    rep.skip('NoJudgedValuation', len(res['skip']))
    for i, clause in split_canaries(res, [c['id'] for c in canaries]):
        entry, text, out, rtxt = info[i]
        rep.violation('%s|%s' % (clause, text), 'simplify(%r) -> %s violates %s' % (text, rtxt or out, clause),
                      {'text': text, 'entry': entry, 'clause': clause, 'result': rtxt, 'outcome': out})
    for e in events[:: max(1, len(events) // 8)]:
        rep.sample({'input': info[e['id']][1], 'output': info[e['id']][3] or info[e['id']][2], 'valuations': len(e['rhos'])})
    return rep.finish()
