"""C10 - refactor_reference isolates the alias-dependent part without changing meaning."""
from harness.common import Report, import_hpl, rng, tier
from harness.rewrite_driver import Recorder, corrupt_first, derived_pass, family_texts, parse_inputs

FAMS = ['slots', 'alias', 'quants', 'bool1w', 'negbool']


def canary(events):
    def ok(ev):
        return ev['out'] == 'ok' and ev['outs'][0] != ev['outs'][1] and ev['outs'][1].get('cls') not in ('HplLiteral', 'HplVacuousTruth')

    def mut(c):
        c['outs'] = [c['outs'][1], c['outs'][0]]
    return corrupt_first(events, ok, mut, 1)


def run(replay=None):
    import_hpl()
    rep = Report('C10')
    thorough = tier() == 'thorough'
    rnd = rng('c10')
    rec = Recorder(rep, rnd, 64 if thorough else 32)
    texts = family_texts(list(FAMS + (['bool2'] if thorough else [])) + [('rand', 8000, 5) if thorough else ('rand', 1500, 4)], rep, rnd, cap=None if thorough else 3000)
    used = []
    for fam, text, entry, obj in parse_inputs(texts, ('expression', 'condition'), boolean_only=True):
        if entry == 'condition' and rnd.random() > 0.25:
            continue
        for alias in ('A', 'C', 'Z', 'M', 'Zq'):    # M and Zq are the aliases that derived_after_use introduces
            if alias in ('C', 'Z') and rnd.random() > 0.4:
                continue
            if alias in ('M', 'Zq') and rnd.random() > 0.3:
                continue
            rec.refactor(text, obj, alias)
        used.append((text, obj))

    def again(text, obj):
        for alias in ('A', 'M', 'Zq'):
            rec.refactor(text, obj, alias)
    rep.count('derived_after_use', derived_pass(used, again, rnd, 1200 if thorough else 300, prepare=again))
    for i, clause in rec.validate(canary):
        inf = rec.info[i]
        rep.violation('%s|%s' % (clause, inf['text']), 'refactor_reference(%r) -> (%s) violates %s' % (inf['text'], inf['result'] or inf['out'], clause), inf)
    for e in rec.dict_events()[:: max(1, len(rec.dict_events()) // 8)]:
        rep.sample({'input': rec.info[e['id']]['text'], 'alias': e['alias'], 'pair': rec.info[e['id']]['result']})
    return rep.finish()
