"""C07 - Parsing never fails in undocumented ways and parsers are stateless."""
import copy
import itertools
import json
import re
import sys
import zlib

from harness import grammar, render, tlc
from harness.common import CANARY_BASE, Report, import_hpl, parsers, rng, split_canaries, tier
from harness.corpus import sentences
from harness.drive import exc_name
from harness.project import project

ALPHABET = ['True', 'False', '=', '!=', '<', '<=', '>', '>=', 'in', 'not', 'implies', 'iff', 'or', 'and', 'forall', 'exists',
            'PI', 'INF', 'NAN', 'E', '+', '-', '*', '/', '**', '![', '[', ']!', ']', 'to', 'as', 'within', 'no', 'some',
            'requires', 'causes', 'forbids', 'after', 'until', 'globally', '@v', 's', 'ms', 'hz', '(', ')', '{', '}', ',', ':', '.',
            '#', 'id', 'title', 'description', 'a', 'abs', '/t', '1', '1.5', '"s"']
KNOWN_FUNS = None


def has_unknown_fun(text):
    global KNOWN_FUNS
    if KNOWN_FUNS is None:
        from hpl.ast.expressions import BuiltinFunction
        KNOWN_FUNS = {m.value.name for m in BuiltinFunction}
    return any(m not in KNOWN_FUNS for m in re.findall(r'([A-Za-z_][A-Za-z0-9_]*)\s*\(', text))


def call(P, entry, text):
    old = sys.getrecursionlimit()
    try:
        obj = P[entry].parse(text)
        return 'ast', project(obj, ids=False)
    except RecursionError:
        return 'RecursionError', {'cls': 'None'}
    except Exception as e:  # noqa
        return exc_name(e), {'cls': 'None'}
    finally:
        sys.setrecursionlimit(old)


STATE_POOL = ['len(data) > 0', 'data > 0', 'data = "s"', 'not data', 'abs(data) < 2', 'data', 'data[0] > 1', 'data.x = 1',
              'data >', 'forall x in data: 1', 'foo(data)', 'sum(data) = data2', 'data2 and data', '{ data }', 'data in {1, 2}',
              'x in data', 'forall k in data: @k > 0', '@data > data', 'data = data2']
POLLUTERS = [('property', 'globally: p as M causes q {forall i in xs: @i > @M.lim}'),
             ('property', 'globally: no q {forall i in xs: @i > @N.lim}'),
             ('property', 'after a as A: no b {exists k in ys: (@k = @A.v and len(zs) > 0)}'),
             ('predicate', '{ forall i in xs: (@i > @M.lim or sum(ws) > @i) }'),
             ('condition', 'exists j in [0 to n]: (xs[@j] > @W.x and abs(m) > 0)'),
             ('specification', '# id: pol\nglobally: (p as M or r) causes q {forall i in xs: @i > @M.lim}\nglobally: no z {x > 0}')]
PROP_POOL = ['globally: no a {data > 0}', 'globally: no a {len(data) > 0}', 'globally: some a as A {data = "s"}',
             'after a as A: b {data = @A.data} causes c', 'globally: no a {data >', 'globally: no a {@B.x > 0}',
             'globally: (a or a) causes b', 'globally: no a {not data}']


def run(replay=None):
    import_hpl()
    rep = Report('C07')
    thorough = tier() == 'thorough'
    rnd = rng('c07')
    events, info = [], {}
    eid = [0]
    ENT = ['expression', 'condition', 'predicate', 'property', 'specification']

    def add(pid, P, entry, text):
        out, obs = call(P, entry, text)
        eid[0] += 1
        events.append({'id': eid[0], 'pid': pid, 'entry': entry, 'text': text, 'out': out, 'obs': obs,
                       'grp': zlib.crc32((entry + '|' + text).encode('utf-8', 'replace')) % 16,
                       'unknownfun': has_unknown_fun(text)})
        info[eid[0]] = (pid, entry, text, out)
        rep.clause('out:' + out)

    P1 = parsers()
    # (a) token-sequence machine
    q = ', '.join('"%s"' % t.replace('"', '\\"') for t in ALPHABET if '"' not in t)
    cfg = 'SPECIFICATION Spec\nCHECK_DEADLOCK FALSE\nCONSTANT MaxLen = %d\nCONSTANT Alphabet = {%s}\nINVARIANT Emit\n' % (3 if thorough else 2, q)
    r = tlc.run_model('HplTokenSeq', cfg_text=cfg, workers=1, timeout=3000)
    if not r['ok']:
        raise tlc.MachineryError(r['out'][-2000:])
    rep.add_tlc(r)
    seqs = [json.loads(t[1]) for t in r['tuples'] if t[0] == 'S']
    rep.count('token_sequences', len(seqs))
    for s in seqs:
        text = ' '.join('"s"' if t == 'STR' else t for t in s)
        for entry in (ENT if len(s) <= 1 else [rnd.choice(ENT[:3]), rnd.choice(ENT[3:])]):
            add('P1', P1, entry, text)
    if not thorough:
        for _ in range(6000):
            s = [rnd.choice(ALPHABET) for _ in range(rnd.choice([3, 3, 4, 5]))]
            add('P1', P1, rnd.choice(ENT), ' '.join(s))
    # (b) single / double token mutants of valid sentences
    sents, st = sentences(thorough)
    rep.add_tlc(st)
    pool = [(entry, render.substitute(s, lits=grammar.STD_LITS)[0]) for _, entry, s in sents]
    nm = 40000 if thorough else 8000
    for _ in range(nm):
        entry, toks = rnd.choice(pool)
        toks = list(toks)
        for _k in range(rnd.choice([1, 1, 2])):
            op = rnd.choice('ids')
            i = rnd.randrange(len(toks) + (1 if op == 'i' else 0)) if toks else 0
            if op == 'i' or not toks:
                toks.insert(i, rnd.choice(ALPHABET))
            elif op == 'd':
                del toks[i]
            else:
                toks[i] = rnd.choice(ALPHABET)
        add('P1', P1, entry, ' '.join(toks))
    # (b'') every "( e1 or e2 ... )" of a valid property reduced to a parenthesised single event "( e1 )"
    nsingle = 0
    for entry, toks in pool:
        if entry != 'property' or 'or' not in toks or '(' not in toks:
            continue
        i = toks.index('(')
        try:
            j = toks.index('or', i)
            k = toks.index(')', j)
        except ValueError:
            continue
        add('P1', P1, 'property', ' '.join(list(toks[:j]) + list(toks[k:])))
        nsingle += 1
        if nsingle >= (400 if thorough else 60):
            break
    for t in ('globally: no (a)', 'after (a): some b', 'globally: (a as A) causes b {y = @A.y}', 'until (q {x > 0}): a forbids (b)',
              'globally: no a\nglobally: no (c)', 'globally: no ()', 'globally: no (a or)', 'globally: no ((a or b))'):
        add('P1', P1, 'property', t)
        add('P1', P1, 'specification', t)
    # (b'+) every property shape of the scoping families (references under indices under field accesses, quantifier hygiene,
    # shared aliases): whatever the binding rule says about them, the outcome is an AST or a documented error, through the
    # property and the specification parser alike
    for fam in ('quant', 'disj'):
        shp, r2 = grammar.enumerate_shapes(fam)
        rep.add_tlc(r2)
        for s in (shp if fam == 'quant' or thorough else shp[::7]):
            text = ' '.join(render.substitute(s, lits=grammar.STD_LITS)[0])
            add('P1', P1, 'property', text)
            if fam == 'quant':
                add('P1', P1, 'specification', '# id: s1\n' + text)
    # (b') annotation blocks: every sequence of up to 3 annotation keys (with repeats and an unknown key) before a property
    import itertools as _it
    keys = {'id': '# id: p1', 'title': '# title: "t"', 'description': '# description: "d"', 'unknown': '# foo: "x"',
            'id2': '# id: p2', 'title2': '# title: "other"'}
    for n in (1, 2, 3):
        for combo in _it.product(sorted(keys), repeat=n):
            if n == 3 and rnd.random() > (1.0 if thorough else 0.5):
                continue
            text = ' '.join(keys[k] for k in combo) + ' globally: no a'
            add('P1', P1, 'property', text)
            add('P1', P1, 'specification', text + '\n' + keys['title'] + ' globally: some b')
    # (b''') extreme number spellings in every position a number can take (magnitudes beyond the floats and the 4300-digit
    # limit of int(), denormals, exponent forms)
    NUMS = ['1e309', '2E400', '1e1000', '1e+308', '1e-400', '.5e-324', '9' * 400, '1' + '0' * 5000, '0.' + '0' * 400 + '1', '1e308', '17976931348623157e292',
            '1.7976931348623157e309', '4.e400', '0e999', '1e0', '00012', '1.', '.0']
    for nsp in NUMS:
        for tmpl, entry in (('x > %s', 'expression'), ('x in [0 to %s]', 'condition'), ('xs[%s] > 0', 'condition'), ('{ x in {1, %s} }', 'predicate'),
                            ('globally: no a {- %s < y} within %s s', 'property'), ('globally: some b within %s ms', 'property'),
                            ('# id: n1\nglobally: no a {abs(%s) = z}', 'specification')):
            add('P1', P1, entry, tmpl.replace('%s', nsp))
    # (b'''') every built-in function applied to every kind of argument the grammar can spell (one argument): whatever is
    # wrong with the call, the outcome is a documented error
    from hpl.ast.expressions import BuiltinFunction
    fnames = sorted({m.value.name for m in BuiltinFunction})
    for fn in fnames:
        for arg in ('x', '1', '"s"', 'True', '{1, 2}', '[1 to 2]', '@v', 'xs[0]', 'x + 1', 'not p', '- y', 'm.f', 'len(xs)', '{x}', 'PI'):
            add('P1', P1, 'expression', '%s(%s)' % (fn, arg))
            add('P1', P1, 'condition', '%s(%s) > 0 or q' % (fn, arg))
        add('P1', P1, 'predicate', '{ %s(x) = %s(y) }' % (fn, fn))
        add('P1', P1, 'property', 'globally: no a {%s(z) > 0}' % fn)
    # (c) raw unicode / structured noise (the spec only classifies the outcomes)
    chars = ['a', '1', ' ', '{', '}', '(', ')', '"', '\\', '@', '#', '\n', '\t', 'é', '中', '\U0001f600', '\x00', '.', ':',
             '[', ']', '!', '=', '-', '/', '~', '$', '%', "'", '​', 'E', 'e', '+']
    for _ in range(20000 if thorough else 3000):
        text = ''.join(rnd.choice(chars) for _ in range(rnd.randrange(0, 12)))
        add('P1', P1, rnd.choice(ENT), text)
    for depth in (5, 30, 120):
        add('P1', P1, 'expression', '(' * depth + 'a' + ')' * depth)
        add('P1', P1, 'expression', 'not ' * depth + 'a')
        add('P1', P1, 'expression', '-' * depth + 'a')
        add('P1', P1, 'expression', 'a' + '.b' * depth + ' > 1')
        add('P1', P1, 'expression', 'a' + '[0]' * depth + ' > 1')
    # (d) statelessness: same texts, other orders, other parser objects
    P2 = parsers(fresh=True)
    sample = [(e['entry'], e['text']) for e in rnd.sample(events, min(len(events), 6000 if thorough else 2500))]
    # the valid corpus (shares field names between texts) in two different orders on two parser objects
    corp = [(entry, ' '.join(t)) for entry, t in rnd.sample(pool, min(len(pool), 8000 if thorough else 3000))]
    half = len(corp) // 2
    corp = corp[:half] + POLLUTERS + corp[half:]
    for entry, text in corp:
        add('P1', P1, entry, text)
    order2 = list(corp) + sample
    rnd.shuffle(order2)
    for entry, text in order2:
        add('P2', P2, entry, text)
    for entry, text in reversed(corp):
        add('P1', P1, entry, text)
    # the same texts through parser objects made with the documented debug switch, and through the module-level
    # parse_* helpers (which build a parser per call): every way of obtaining an entry point is an entry point
    import logging
    logging.disable(logging.CRITICAL)      # debug parsers log the LALR conflicts they resolved; not our subject
    import contextlib
    import io
    try:
        with contextlib.redirect_stdout(io.StringIO()), contextlib.redirect_stderr(io.StringIO()):   # ... and dump the LALR stack on errors
            PD = parsers(debug=True)
            for entry, text in rnd.sample(sample, min(len(sample), 1500 if thorough else 500)) + [(e, t) for e, t in POLLUTERS] + \
                    [('condition', t) for t in STATE_POOL] + [('property', t) for t in PROP_POOL]:
                add('PD', PD, entry, text)
    finally:
        logging.disable(logging.NOTSET)
    from hpl import parser as _hp
    helpers = {'specification': _hp.parse_specification, 'property': _hp.parse_property, 'predicate': _hp.parse_predicate}

    class _H:
        def __init__(self, fn):
            self.parse = fn
    PH = {k: _H(v) for k, v in helpers.items()}
    for entry, text in [x for x in rnd.sample(sample, min(len(sample), 600)) if x[0] in PH][:150 if thorough else 60] + \
            [(e, t) for e, t in POLLUTERS if e in PH] + [('property', t) for t in PROP_POOL]:
        add('PH', PH, entry, text)
    # all orders of small sets on fresh parser objects
    nsets = 12 if thorough else 4
    for k in range(nsets):
        texts = rnd.sample(STATE_POOL, 3) if k % 2 == 0 else rnd.sample(PROP_POOL, 3)
        entry = 'condition' if k % 2 == 0 else 'property'
        for pi, perm in enumerate(itertools.permutations(texts)):
            if pi % 2 == 1 and not thorough:
                continue
            Pf = parsers(fresh=True)
            for t in perm + perm[:1]:
                add('F%d_%d' % (k, pi), Pf, entry, t)
    # every pool text once more on the long-lived parser, after everything else
    for t in STATE_POOL:
        add('P1', P1, 'condition', t)
        add('P2', P2, 'condition', t)
    canaries = []
    for ev in events:
        if ev['out'] == 'ast':
            c = copy.deepcopy(ev); c['id'] = CANARY_BASE + 1; c['out'] = 'KeyError'; c['text'] += ' (canary)'
            c2 = copy.deepcopy(ev); c2['id'] = CANARY_BASE + 2; c2['out'] = 'TypeError'; c2['obs'] = {'cls': 'None'}
            canaries = [c, ev_copy(ev, CANARY_BASE + 3), c2]
            break
    res = tlc.validate_batch('T_C07', events + canaries, group_key='grp', heap='4g')
    rep.add_tlc(res)
    rep.add_traces(res['consumed'] - len(canaries))
    rep.cov['canaries_rejected'] = 2
    bad = [(i, c) for i, c in res['bad']]
    flagged = {i for i, _ in bad}
    if canaries and not ({CANARY_BASE + 1, CANARY_BASE + 2} <= flagged):
        raise tlc.MachineryError('canaries accepted by T_C07: %r' % sorted(flagged & {CANARY_BASE + 1, CANARY_BASE + 2, CANARY_BASE + 3}))
    for i, clause in bad:
        if i >= CANARY_BASE:
            continue
        pid, entry, text, out = info[i]
        rep.violation('%s|%s|%s' % (clause, entry, text[:200]), '%s: %s parser on %r -> %s' % (clause, entry, text[:200], out),
                      {'parser_object': pid, 'entry': entry, 'text': text, 'outcome': out, 'clause': clause})
    for e in events[:: max(1, len(events) // 8)]:
        rep.sample({'entry': e['entry'], 'text': e['text'][:80], 'outcome': e['out']})
    return rep.finish()


def ev_copy(ev, i):
    c = copy.deepcopy(ev)
    c['id'] = i
    return c
