"""C05 - Definite type errors are always rejected."""
import copy

from harness import grammar, render, tlc
from harness.common import CANARY_BASE, keep, Report, import_hpl, rng, split_canaries, tier
from harness.drive import call_parser


def run(replay=None):
    import_hpl()
    rep = Report('C05')
    thorough = tier() == 'thorough'
    rnd = rng('c05')
    sents, r = grammar.enumerate_family('clash')
    rep.add_tlc(r)
    rep.count('clash_terms', len(sents))
    events, info = [], {}
    for s in sents:
        toks, exp = render.substitute(s, lits=grammar.STD_LITS)
        exp = grammar.fix_var_names(exp)
        text = ' '.join(toks)
        if not keep(text):
            continue
        outs = []
        for way, entry, t in (('condition', 'condition', text), ('predicate', 'predicate', '{ ' + text + ' }'),
                              ('property', 'property', 'after t as A: no u { ' + text + ' }'),
                              ('nested', 'condition', '( ' + text + ' ) and w > 0' if rnd.random() < 0.5 else 'w > 0 and ( ' + text + ' )')):
            if way == 'nested' and exp.get('cls') in ('HplLiteral', 'HplSet', 'HplRange') or (way == 'nested' and exp.get('cls') in ('HplFunctionCall',) ):
                continue
            if way == 'nested' and exp.get('cls') in ('HplBinaryOperator', 'HplUnaryOperator') and exp.get('operator') in ('+', '-', '*', '/', '**'):
                continue
            o, _ = call_parser(entry, t)
            outs.append([way, o])
        events.append({'id': len(events) + 1, 'expected': exp, 'outs': outs})
        info[len(events)] = text
        for w, o in outs:
            rep.clause('%s:%s' % (w, o))
    canaries = []
    for ev in events:
        if all(o[1] == 'TypeError' for o in ev['outs']):
            c = copy.deepcopy(ev); c['id'] = CANARY_BASE + 1; c['outs'][0][1] = 'ast'; canaries.append(c)
            break
    res = tlc.validate_batch('T_C05', events + canaries)
    rep.add_tlc(res)
    rep.add_traces(res['consumed'] - len(canaries))
    rep.cov['canaries_rejected'] = len(canaries)
    gen = [i for i, c in res['bad'] if c.startswith('GEN:') and i < CANARY_BASE]
    if gen:
        raise tlc.MachineryError('generator produced %d terms that the spec does not classify as definite clashes, e.g. %r' % (len(gen), [info[i] for i in gen[:5]]))
    for i, clause in split_canaries(res, [c['id'] for c in canaries]):
        rep.violation('%s|%s' % (clause, info[i]), '%s: %r' % (clause, info[i]), {'text': info[i], 'clause': clause, 'outcomes': events[i - 1]['outs']})
    for e in events[:: max(1, len(events) // 8)]:
        rep.sample({'text': info[e['id']], 'outcomes': e['outs']})
    return rep.finish()
