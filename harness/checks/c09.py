"""C09 - split_and returns an equivalent list of indivisible conjuncts."""
from harness.common import Report, import_hpl, rng, tier
from harness.rewrite_driver import Recorder, corrupt_first, derived_pass, family_texts, parse_inputs

FAMS = ['slots', 'alias', 'quants', 'bool1w', 'bool2', 'negbool', 'capture']


def canary(events):
    def ok(ev):
        return ev['out'] == 'ok' and len(ev['outs']) >= 2

    def mut(c):
        c['outs'] = c['outs'][:-1]
    return corrupt_first(events, ok, mut, 1)


def run(replay=None):
    import_hpl()
    rep = Report('C09')
    thorough = tier() == 'thorough'
    rnd = rng('c09')
    rec = Recorder(rep, rnd, 64 if thorough else 32)
    texts = family_texts(list(FAMS + (['bool22'] if thorough else [])) + [('rand', 8000, 5) if thorough else ('rand', 1500, 4)], rep, rnd, cap=None if thorough else 3000)
    texts += [('vacuous', 'True'), ('vacuous', 'False'), ('vacuous', '( False )'), ('vacuous', 'not True'), ('vacuous', 'p and False')]
    used = []
    for fam, text, entry, obj in parse_inputs(texts, ('expression', 'condition'), boolean_only=True):
        if entry == 'condition' and fam != 'vacuous' and rnd.random() > 0.25:
            continue
        rec.split_and(text, obj)
        used.append((text, obj))
    rep.count('derived_after_use', derived_pass(used, rec.split_and, rnd, 1500 if thorough else 400))
    for i, clause in rec.validate(canary):
        inf = rec.info[i]
        rep.violation('%s|%s' % (clause, inf['text']), 'split_and(%r) -> [%s] violates %s' % (inf['text'], inf['result'] or inf['out'], clause), inf)
    for e in rec.dict_events()[:: max(1, len(rec.dict_events()) // 8)]:
        rep.sample({'input': rec.info[e['id']]['text'], 'parts': rec.info[e['id']]['result'], 'valuations': len(e['rhos'])})
    return rep.finish()
