"""C11 - canonical_form is an exact, order-stable decomposition."""
import copy

from harness import build, grammar, render, tlc
from harness.common import CANARY_BASE, keep, Report, import_hpl, rng, split_canaries, tier
from harness.drive import call_parser, exc_name
from harness.project import project

TIMES = [None, '100 ms', '2 s', '0 s', '1.5 s']


def left_nest(ev):
    """Same alternatives, nested to the left (only reachable through the API)."""
    from hpl.ast.events import HplEventDisjunction
    alts = list(ev.simple_events())
    if len(alts) < 3:
        return ev
    acc = HplEventDisjunction(alts[0], alts[1])
    for a in alts[2:]:
        acc = HplEventDisjunction(acc, a)
    return acc


def decorate(p, rnd):
    """Metadata on property, scope, pattern and events (metadata dicts are plain mutable dicts)."""
    p.metadata.update({'id': 'p%d' % rnd.randrange(100), 'title': 'T'})
    if rnd.random() < 0.7:
        p.scope.metadata['s'] = 'scope-meta'
        p.pattern.metadata['p'] = 'pattern-meta'
    for e in (p.scope.activator, p.scope.terminator, p.pattern.trigger, p.pattern.behaviour):
        if e is not None and rnd.random() < 0.5:
            e.metadata['e'] = 'event-meta'
            for s in e.simple_events():
                s.metadata['alt'] = s.name
    return p


def record(text, p, variant):
    from hpl.rewrite import canonical_form
    ev = {'text': text, 'variant': variant, 'in': project(p, ids=False), 'outs': [], 'same': False, 'shared_meta': False, 'idem': []}
    try:
        r = canonical_form(p)
        ev['out'] = 'ok'
        ev['outs'] = [project(x, ids=False) for x in r]
        ev['same'] = len(r) == 1 and r[0] is p
        ev['shared_meta'] = any(x.metadata is p.metadata for x in r if x is not p)
        for x in r:
            try:
                rr = canonical_form(x)
                ev['idem'].append(len(rr) == 1 and rr[0] is x)
            except Exception:  # noqa
                ev['idem'].append(False)
    except Exception as e:  # noqa
        ev['out'] = exc_name(e)
    return ev


def run(replay=None):
    import_hpl()
    rep = Report('C11')
    thorough = tier() == 'thorough'
    rnd = rng('c11')
    sents, r = grammar.enumerate_shapes('width')
    rep.add_tlc(r)
    rep.count('shapes_width', len(sents))
    extra, r2 = grammar.enumerate_shapes('disj')
    rep.add_tlc(r2)
    mon, r3 = grammar.enumerate_shapes('mon')
    rep.add_tlc(r3)
    extra = extra + mon
    events, info = [], {}
    for s in sents + extra:
        toks, exp = render.substitute(s, lits=grammar.STD_LITS)
        text = render.layout(toks, 0)
        tb = rnd.choice(TIMES)
        if tb:
            text += ' within ' + tb
        if not keep(text):
            continue
        o, p = call_parser('property', text)
        if o != 'ast':
            rep.skip('rejected:' + o)
            continue
        events.append(record(text, decorate(p, rnd), 'parsed+metadata'))
        if rnd.random() < (1.0 if thorough else 0.5):
            # the same property with its disjunctions replaced by copies-with-changes of themselves (after they were used)
            try:
                pd = build.derive_disjunctions(p, ['zz1', 'zz2', 'zz3', 'zz4'])
                if pd is not None:
                    events.append(record(text + '   [first alternative of every disjunction moved to a new channel through but()]', pd, 'derived-disjunctions'))
            except Exception as e:  # noqa
                rep.skip('derive:' + exc_name(e))
        if rnd.random() < (1.0 if thorough else 0.3):
            # an EQUAL property (same text, new object) with other metadata: the result must carry ITS metadata
            o1, p1 = call_parser('property', text)
            p1.metadata.update({'id': 'twin%d' % rnd.randrange(1000), 'description': 'second object'})
            p1.scope.metadata['s'] = 'twin-scope'
            events.append(record(text, p1, 'equal-twin-with-other-metadata'))
        if rnd.random() < (1.0 if thorough else 0.35):
            o2, p2 = call_parser('property', text)
            try:
                kw = {}
                if p2.scope.activator is not None:
                    p3 = p2.but(scope=p2.scope.but(activator=left_nest(p2.scope.activator)))
                else:
                    p3 = p2
                p3 = p3.but(pattern=p3.pattern.but(behaviour=left_nest(p3.pattern.behaviour),
                                                    **({'trigger': left_nest(p3.pattern.trigger)} if p3.pattern.trigger is not None else {})))
                events.append(record(text, decorate(p3, rnd), 'left-nested'))
            except Exception as e:  # noqa
                rep.skip('left-nest:' + exc_name(e))
    for i, ev in enumerate(events):
        ev['id'] = i + 1
        info[i + 1] = ev
    canaries = []
    for ev in events:
        if ev['out'] == 'ok' and len(ev['outs']) >= 4 and ev['outs'][1] != ev['outs'][2]:
            c = copy.deepcopy(ev); c['id'] = CANARY_BASE + 1
            c['outs'][1], c['outs'][2] = c['outs'][2], c['outs'][1]
            c2 = copy.deepcopy(ev); c2['id'] = CANARY_BASE + 2
            c2['outs'][0]['metadata'] = []
            canaries = [c, c2]
            break
    res = tlc.validate_batch('T_C11', events + canaries)
    rep.add_tlc(res)
    rep.add_traces(res['consumed'] - len(canaries))
    rep.cov['canaries_rejected'] = len(canaries)
    rep.cov['exhaustive'] = True
    from harness.checks.c14 import partial_alias_shape
    for i, clause in split_canaries(res, [c['id'] for c in canaries]):
        ev = info[i]
        if clause == 'Raises:HplSanityError' and partial_alias_shape(ev['in']):
            rep.skip('known-C14-finding(alias bound by some alternatives only)')
            continue
        rep.violation('%s|%s|%s' % (clause.split(':')[0], ev['variant'], ev['text']), '%s: canonical_form(%r) [%s] gave %d properties' % (clause, ev['text'], ev['variant'], len(ev['outs'])),
                      {'text': ev['text'], 'variant': ev['variant'], 'clause': clause, 'n_outputs': len(ev['outs'])})
    for e in events[:: max(1, len(events) // 8)]:
        rep.sample({'text': e['text'], 'variant': e['variant'], 'outputs': len(e['outs'])})
    return rep.finish()
