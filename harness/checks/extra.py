"""EXTRA - behaviour beyond the listed properties (spec growth; NOT registered in MANIFEST.json).
./check EXTRA writes evidence/EXTRA.json; a disagreement is printed as 'EXTRA-DISAGREEMENT', never as a VIOLATION
of a listed property."""
import json
import os
import time

from harness import grammar, render, tlc
from harness.common import ROOT, import_hpl, rng, tier
from harness.corpus import accepted, accepted_families
from harness.drive import call_parser
from harness.project import project
from harness.valuations import valuations


def run(replay=None):
    import_hpl()
    from hpl import rewrite as R
    from hpl.ast.properties import HplPattern, HplScope, PatternType, ScopeType
    from hpl.ast.events import HplSimpleEvent
    t0 = time.time()
    rnd = rng('extra')
    thorough = tier() == 'thorough'
    events = []
    fams, st = accepted_families(['alias', 'bool1w', 'quants'], cap=600 if not thorough else None, salt='extra')
    for text, entry, obj in fams:
        if entry != 'condition':
            continue
        pin = project(obj, ids=False)
        for op, fn in (('and', R.get_conjuncts), ('or', R.get_disjuncts)):
            parts = fn(obj)
            events.append({'kind': 'flatten', 'op': op, 'in': pin, 'parts': [project(p, ids=False) for p in parts],
                           'rhos': valuations(pin, limit=16, rnd=rnd), 'desc': '%s(%s)' % (fn.__name__, text)})
    props, st2 = accepted(thorough, salt='extra')
    for text, entry, obj in props:
        if entry != 'property':
            continue
        events.append({'kind': 'classify', 'prop': project(obj, ids=True), 'is_safety': bool(obj.is_safety), 'is_liveness': bool(obj.is_liveness),
                       'events': [str(id(e)) for e in obj.events()], 'has_max_time': bool(obj.pattern.has_max_time), 'desc': text})
    a, b = HplSimpleEvent.publish('a'), HplSimpleEvent.publish('b')

    def ctor(what, must, fn):
        try:
            fn(); raised = False
        except Exception:  # noqa
            raised = True
        events.append({'kind': 'ctor', 'what': what, 'mustraise': must, 'raised': raised, 'desc': what})
    for st_ in ScopeType:
        for act in (None, a):
            for term in (None, b):
                must = (st_.is_after != (act is not None)) or (st_.is_until != (term is not None))
                ctor('HplScope(%s, activator=%s, terminator=%s)' % (st_.name, act and 'a', term and 'b'), must,
                     lambda st_=st_, act=act, term=term: HplScope(st_, activator=act, terminator=term))
    for pt in PatternType:
        for trig in (None, a):
            must = pt.should_have_trigger != (trig is not None)
            ctor('HplPattern(%s, trigger=%s)' % (pt.name, trig and 'a'), must, lambda pt=pt, trig=trig: HplPattern(pt, b, trig))
    ctor('HplPattern(max_time < min_time)', True, lambda: HplPattern(PatternType.ABSENCE, b, None, min_time=2.0, max_time=1.0))
    ctor('HplPattern(min_time < 0)', True, lambda: HplPattern(PatternType.ABSENCE, b, None, min_time=-1.0))
    from hpl.ast.expressions import BuiltinBinaryOperator
    for m in BuiltinBinaryOperator:
        try:
            inv = R.inverse_operator(m.value).token
        except ValueError:
            continue
        events.append({'kind': 'inverse', 'op': m.value.token, 'inv': inv, 'desc': 'inverse_operator(%s)' % m.value.token})
    for i, ev in enumerate(events):
        ev['id'] = i + 1
    res = tlc.validate_batch('T_Extra', events)
    for i, clause in res['bad']:
        print('EXTRA-DISAGREEMENT %s: %s' % (clause, events[i - 1]['desc'][:200]))
    ev = {'property_id': 'EXTRA', 'tier': tier(), 'seed': 0, 'level': 'model_checking', 'wall_s': round(time.time() - t0, 1),
          'coverage': {'states': res['distinct'], 'transitions': res['generated'], 'traces_validated_against_impl': res['consumed'],
                       'samples': [e['desc'] for e in events[:: max(1, len(events) // 8)]], 'disagreements': len(res['bad'])},
          'violations': 0}
    with open(os.path.join(os.environ.get('VERIF_OUT', ROOT), 'evidence', 'EXTRA.json'), 'w') as f:
        json.dump(ev, f, indent=1)
    print('EXTRA: events=%d disagreements=%d wall=%.1fs' % (len(events), len(res['bad']), time.time() - t0))
    return 0
