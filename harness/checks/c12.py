"""C12 - Splitting a pattern over event alternatives preserves trace semantics.

The pair (orig, parts) of every shape is produced by the REAL canonical_form and handed to TLC as a
constant; HplMonitor explores every timed trace up to a length bound and checks, in every reachable
state, Sat(orig) <=> every part is satisfied - under both readings of scope re-activation.  Three
deliberately wrong decompositions (built with the real API) must each yield a counterexample."""
import json
import os

from harness import build, grammar, render, tlc
from harness.common import Report, import_hpl, rng, tier
from harness.drive import call_parser, exc_name
from harness.project import project

CFG = '''SPECIFICATION Spec
CHECK_DEADLOCK FALSE
CONSTANT Topics = {"p", "q", "x1", "x2", "x3", "y"}
CONSTANT Payloads = {0, 1}
CONSTANT Deltas = {%s}
CONSTANT MaxLen = %d
CONSTANT Reactivate = %s
INVARIANT EquivImpl
INVARIANT EquivSpec
'''


def wrong_splits():
    """Decompositions that do NOT preserve meaning (the spec must find a counterexample)."""
    out = []
    for text, slot in (('globally: some (x1 or x2 {v = 1})', 'behaviour'),
                       ('globally: y causes (x1 or x2 {v = 1}) within 1 s', 'behaviour'),
                       ('after p: y as Y requires (x1 or x2 {v = @Y.v})', 'trigger')):
        o, p = call_parser('property', text)
        assert o == 'ast', (text, o)
        ev = getattr(p.pattern, slot)
        parts = [p.but(pattern=p.pattern.but(**{slot: alt})) for alt in ev.simple_events()]
        out.append({'text': text, 'orig': project(p, ids=False), 'parts': [project(q, ids=False) for q in parts]})
    return out


def run(replay=None):
    import_hpl()
    from hpl.rewrite import canonical_form
    rep = Report('C12')
    thorough = tier() == 'thorough'
    sents, r = grammar.enumerate_shapes('mon')
    rep.add_tlc(r)
    props = []
    nder = 0
    for x in sents:
        toks, _ = render.substitute(x)
        text = ' '.join(toks)
        if not thorough and ('within 2 s' in text or text.startswith('after p until q :')):
            continue          # quick tier: fewer time bounds, one after-until variant
        o, p = call_parser('property', text)
        if o != 'ast':
            rep.skip('rejected:' + o)
            continue
        try:
            parts = canonical_form(p)
        except Exception as e:  # noqa
            rep.skip('canonical_form:' + exc_name(e))
            continue
        props.append({'text': text, 'orig': project(p, ids=False), 'parts': [project(q, ids=False) for q in parts]})
        # the same property with its disjunctions replaced by copies-with-changes of themselves (after they were used)
        if len(parts) > 1 and (thorough or len(props) % 3 == 0):
            try:
                pd = build.derive_disjunctions(p, ['x3', 'x2', 'x1', 'y'])
                if pd is not None:
                    parts2 = canonical_form(pd)
                    props.append({'text': text + '   [an alternative moved to another channel through but()]', 'orig': project(pd, ids=False),
                                  'parts': [project(q, ids=False) for q in parts2]})
                    nder += 1
            except Exception as e:  # noqa
                rep.skip('derived:' + exc_name(e))
    rep.count('properties_with_derived_disjunctions', nder)
    if not thorough:
        # quick tier: every second shape, and every shape with a derived disjunction or a literal False / True predicate
        props = [p for i, p in enumerate(props) if i % 2 == 0 or '[an alternative moved' in p['text'] or 'False' in p['text'] or 'True' in p['text'] or 'within 0 s' in p['text']]
    rep.count('properties', len(props))
    rep.count('properties_split', sum(1 for p in props if len(p['parts']) > 1))
    os.makedirs(tlc.BUILD, exist_ok=True)
    nb = 0
    localised = 0
    B = 30
    # quick: traces up to 3 messages, 3 time steps.  thorough: the same for ALL shapes, and traces up to 4 messages (2 time
    # steps) for every tenth shape and every shape with a derived disjunction or a literal predicate
    passes = [('FALSE', 3, '0, 1, 2', props), ('TRUE', 3, '0, 1, 2', [p for p in props if p['orig']['scope']['scope_type'] == 'AFTER_UNTIL'])]
    if thorough:
        deep = [p for i, p in enumerate(props) if i % 10 == 0 or '[an alternative moved' in p['text'] or 'False' in p['text'] or 'within 0 s' in p['text']]
        passes += [('FALSE', 4, '0, 1', deep), ('TRUE', 4, '0, 1', [p for p in deep if p['orig']['scope']['scope_type'] == 'AFTER_UNTIL'][::2])]
    maxlen, deltas = (4, '0, 1 (3 messages: 0, 1, 2)') if thorough else (3, '0, 1, 2')
    for react, maxlen_, deltas_, sel in passes:
        # (re-activation only concerns after-until scopes)
        for b in range(0, len(sel), B):
            batch = sel[b:b + B]
            path = os.path.join(tlc.BUILD, 'props_c12_%d_%s_%d.json' % (os.getpid(), react, b))
            with open(path, 'w') as f:
                json.dump(batch, f)
            cfg = CFG % (deltas_, maxlen_, react)
            if react == 'TRUE':
                cfg = cfg.replace('INVARIANT EquivSpec\n', '')
            res = tlc.run_model('MC_Monitor', cfg_text=cfg, env={'PROPS_FILE': path}, timeout=3400)
            os.unlink(path)
            rep.add_tlc(res)
            nb += 1
            if res['violated'] and localised >= 3:
                rep.violation('%s|batch:%s..|reactivate=%s' % (res['violated'], batch[0]['text'], react),
                              '%s violated by some property of the batch starting with %r (reactivate=%s)' % (res['violated'], batch[0]['text'], react),
                              {'batch': [p['text'] for p in batch], 'invariant': res['violated'], 'reactivate': react})
            elif res['violated']:
                # find the offending properties one by one (only for the first few batches: each rerun costs seconds)
                for pr in batch:
                    if localised >= 3:
                        break
                    with open(path, 'w') as f:
                        json.dump([pr], f)
                    r1 = tlc.run_model('MC_Monitor', cfg_text=CFG % (deltas_, maxlen_, react), env={'PROPS_FILE': path}, timeout=3400)
                    os.unlink(path)
                    if r1['violated']:
                        localised += 1
                        trace = [l for l in r1['out'].splitlines() if l.startswith('tr = ') or l.startswith('/\\ tr')][-1:]
                        rep.violation('%s|%s|reactivate=%s' % (r1['violated'], pr['text'], react),
                                      '%s violated: a trace distinguishes %r from its canonical form (reactivate=%s)' % (r1['violated'], pr['text'], react),
                                      {'text': pr['text'], 'invariant': r1['violated'], 'reactivate': react, 'counterexample': trace,
                                       'parts': len(pr['parts'])})
            elif not res['ok']:
                raise tlc.MachineryError(res['out'][-3000:])
    rep.add_traces(len(props) * 2)
    rep.cov['model_runs'] = nb
    rep.cov['trace_bound'] = {'MaxLen': maxlen, 'Topics': 6, 'Payloads': 2, 'Deltas': deltas}
    # the invariant must be able to see a wrong split
    seen = 0
    for w in wrong_splits():
        path = os.path.join(tlc.BUILD, 'props_c12_wrong_%d.json' % os.getpid())
        with open(path, 'w') as f:
            json.dump([w], f)
        res = tlc.run_model('MC_Monitor', cfg_text=(CFG % ('0, 1, 2', 3, 'FALSE')).replace('INVARIANT EquivSpec\n', ''), env={'PROPS_FILE': path})
        os.unlink(path)
        rep.add_tlc(res)
        if res['violated'] == 'EquivImpl':
            seen += 1
        else:
            raise tlc.MachineryError('the wrong decomposition of %r was NOT detected by the model (vacuous invariant?)\n%s' % (w['text'], res['out'][-1500:]))
    rep.cov['wrong_splits_detected'] = seen
    for p in props[:: max(1, len(props) // 8)]:
        rep.sample({'property': p['text'], 'parts': len(p['parts'])})
    rep.assumptions = ['strong finite-trace reading; time bound measured from scope start (unary) or between trigger and behaviour (binary); both re-activation readings checked']
    return rep.finish()
