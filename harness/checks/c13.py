"""C13 - Predicate combinators and reference substitutions are semantically exact."""
from harness.common import Report, import_hpl, rng, tier
from harness.drive import call_parser
from harness.rewrite_driver import Recorder, corrupt_first, derived_pass, family_texts, parse_inputs

FAMS = ['slots', 'bool1w', 'quants', 'incl', 'alias', 'barealias']


def canary(events):
    def ok(ev):
        return ev['op'] == 'negate' and ev['out'] == 'ok' and ev['in'].get('cls') == 'HplPredicateExpression'

    def mut(c):
        c['outs'] = [c['in']]
    a = corrupt_first(events, ok, mut, 1)

    def ok2(ev):
        return ev['op'] == 'replace_this_with_var' and ev['out'] == 'ok' and ev['outs'][0] != ev['in']

    def mut2(c):
        c['outs'] = [c['in']]
    return a + corrupt_first(events, ok2, mut2, 2)


def run(replay=None):
    import_hpl()
    rep = Report('C13')
    thorough = tier() == 'thorough'
    rnd = rng('c13')
    rec = Recorder(rep, rnd, 48 if thorough else 24)
    texts = family_texts(list(FAMS) + [('rand', 4000, 4) if thorough else ('rand', 600, 3)], rep, rnd, cap=None if thorough else 1200)
    texts += [('vacuous', 'True'), ('vacuous', 'False'), ('vacuous', '( True )')]
    pool = []
    for t in ('True', 'False', 'q', 'not p', '@A . n > y'):
        o, obj = call_parser('condition', t)
        assert o == 'ast', (t, o)
        pool.append((t, obj))
    used = []
    always = []          # inputs whose interesting behaviour only shows on derived copies: always part of the derived pass
    for fam, text, entry, obj in parse_inputs(texts, ('expression', 'condition')):
        used.append((text, obj))
        if fam == 'barealias':
            always.append((text, obj))
        if entry == 'condition':
            rec.negate(text, obj)
            for qt, q in pool:
                if qt in ('True', 'False') or rnd.random() < 0.3:
                    rec.join(text, obj, q, qt)
                    if qt in ('True', 'False'):
                        rec.join(qt, q, obj, text)
            rec.event(text, obj, 'A')
            if rnd.random() < 0.5:
                rec.replace(text, obj, True, 'M')
                rec.replace(text, obj, False, 'A')
        else:
            rec.replace(text, obj, True, 'M')
            rec.replace(text, obj, False, 'A')
            if rnd.random() < 0.2:
                rec.replace(text, obj, True, 'A')
    def again(text, obj):
        from hpl.ast.predicates import HplPredicate
        if isinstance(obj, HplPredicate):
            rec.negate(text, obj)
            rec.join(text, obj, pool[3][1], pool[3][0])
            rec.event(text, obj, 'A')
            rec.event(text, obj, 'M')
        rec.replace(text, obj, True, 'M')
        rec.replace(text, obj, False, 'A')
        rec.replace(text, obj, False, 'M')
    rep.count('derived_after_use', derived_pass(used, again, rnd, 600 if thorough else 150, prepare=again)
              + derived_pass(always, again, rnd, len(always) + 1))
    for i, clause in rec.validate(canary):
        inf = rec.info[i]
        rep.violation('%s|%s|%s' % (clause, inf['op'], inf['text']), '%s(%r) -> %s violates %s' % (inf['op'], inf['text'], inf['result'] or inf['out'], clause), inf)
    for e in rec.dict_events()[:: max(1, len(rec.dict_events()) // 8)]:
        rep.sample({'op': e['op'], 'input': rec.info[e['id']]['text'], 'result': rec.info[e['id']]['result']})
    return rep.finish()
