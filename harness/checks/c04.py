"""C04 - Well-typed specifications are never rejected."""
import copy

from harness import grammar, render, tlc
from harness.common import CANARY_BASE, keep, Report, import_hpl, rng, split_canaries, tier
from harness.checks.c17 import rotated_schema, schema, tok
from harness.drive import call_parser, exc_name
from harness.project import project


def run(replay=None):
    import_hpl()
    rep = Report('C04')
    thorough = tier() == 'thorough'
    rnd = rng('c04')
    sc = schema()
    scj = {k: tok(v) for k, v in sc.items()}
    sc_rot = rotated_schema()
    sents, r = grammar.enumerate_shapes('welltyped')
    rep.add_tlc(r)
    rep.count('welltyped_predicates', len(sents))
    events, info, canon = [], {}, {}
    for s in sents:
        toks, _ = render.substitute(s, lits=grammar.STD_LITS)
        for mode in ((0,) if not thorough else (0, 2)):
            text = render.layout(toks, mode)
            if not keep(text) and not keep(' '.join(toks)):
                continue
            o, p = call_parser('property', text)
            ev = {'id': len(events) + 1, 'out': o, 'prop': {'cls': 'None'}, 'schema': scj, 'check': 'na', 'check2': 'na'}
            if o == 'ast':
                ev['prop'] = project(p, ids=False)
                try:
                    p.type_check_references(sc)
                    ev['check'] = 'ok'
                except Exception as e:  # noqa
                    ev['check'] = exc_name(e)
                # a freshly parsed twin, and then this object, are checked against another schema (whatever that gives) and then
                # against the schema of the family:
                # being well-typed under a schema does not depend on what the object was checked against before
                o2, p2 = call_parser('property', text)
                for q in ((p2, p) if o2 == 'ast' else (p,)):
                    try:
                        q.type_check_references(sc_rot)
                    except Exception:  # noqa
                        pass
                    try:
                        q.type_check_references(sc)
                        ev['check2'] = 'ok' if ev['check2'] in ('na', 'ok') else ev['check2']
                    except Exception as e:  # noqa
                        ev['check2'] = exc_name(e)
            events.append(ev)
            info[ev['id']] = text
            canon[ev['id']] = ' '.join(toks)
            rep.clause('parse:%s/check:%s' % (o, ev['check']))
    canaries = []
    for ev in events:
        if ev['out'] == 'ast' and ev['check'] == 'ok':
            c = copy.deepcopy(ev); c['id'] = CANARY_BASE + 1; c['check'] = 'TypeError'; canaries.append(c)
            c2 = copy.deepcopy(ev); c2['id'] = CANARY_BASE + 2; c2['out'] = 'TypeError'; canaries.append(c2)
            break
    res = tlc.validate_batch('T_C04', events + canaries)
    rep.add_tlc(res)
    rep.add_traces(res['consumed'] - len(canaries))
    rep.cov['canaries_rejected'] = len(canaries)
    gen = [(i, c) for i, c in res['bad'] if c.startswith('GEN:') and i < CANARY_BASE]
    if gen:
        raise tlc.MachineryError('generated predicates are not well-typed under the schema according to HplTyping: %r' % [(info[i], c) for i, c in gen[:5]])
    for i, clause in split_canaries(res, [c['id'] for c in canaries]):
        rep.violation(signature(clause, canon[i]), '%s: %r' % (clause, info[i]), {'text': info[i], 'clause': clause})
    for e in events[:: max(1, len(events) // 8)]:
        rep.sample({'text': info[e['id']], 'parser': e['out'], 'schema_check': e['check']})
    return rep.finish()


def signature(clause, text):
    import re
    m = re.search(r'(forall|exists) (\w+) in ([^:{\[]+?) :', text)
    if clause == 'WellTypedAccepted:TypeError' and m and re.search(r'@%s \. \w+' % m.group(2), text):
        return 'quantified-variable-over-array-of-messages-used-as-message'
    return '%s|%s' % (clause, text)
