"""C02 - A property is accepted iff every alias reference is bound earlier, once."""
import copy

from harness import build, grammar, render, tlc
from harness.common import CANARY_BASE, keep, Report, import_hpl, rng, split_canaries, tier
from harness.drive import call_parser, exc_name


def ways(text, exp, base):
    outs = []
    o, _ = call_parser('property', text)
    outs.append(['parsed', o])
    for way, fn in (('api', lambda: build.prop(exp)), ('copied', lambda: build.prop_by_copy(exp, base)),
                    ('derived', lambda: build.prop_derived(exp))):
        try:
            fn()
            outs.append([way, 'ast'])
        except Exception as e:  # noqa
            outs.append([way, exc_name(e)])
    return outs


MON_CFG = '''SPECIFICATION Spec
CHECK_DEADLOCK FALSE
CONSTANT Topics = {"p", "q", "a", "a2", "b"}
CONSTANT Payloads = {0, 1}
CONSTANT Deltas = {0, 1}
CONSTANT MaxLen = %d
CONSTANT Reactivate = FALSE
INVARIANT %s
'''


def binding_theorem(rep, rnd, thorough):
    """Model level (C02 <-> L3): on every trace of the message bus, a property shape that HplScoping!Accept admits is never
    evaluated by the monitor with an unbound alias; a shape rejected for an unbound / late reference is, on some trace
    (must-fail instance: the rule is not vacuous on these shapes).  Spec only: the shapes are the trees the grammar assigns."""
    import json
    import os
    shapes = []
    for fam, n in (('simple', 150 if thorough else 60), ('disj', 80 if thorough else 30)):
        sents, _ = grammar.enumerate_shapes(fam)
        for s in rnd.sample(sents, min(n, len(sents))):
            toks, exp = render.substitute(s, names={'x': 'v'}, lits=grammar.STD_LITS)
            shapes.append({'text': ' '.join(toks), 'orig': grammar.fix_var_names(exp)})
    os.makedirs(tlc.BUILD, exist_ok=True)
    path = os.path.join(tlc.BUILD, 'props_c02_%d.json' % os.getpid())
    with open(path, 'w') as f:
        json.dump(shapes, f)
    try:
        maxlen = 4 if thorough else 3
        r = tlc.run_model('MC_Monitor', cfg_text=MON_CFG % (maxlen, 'BindingSufficient'), env={'PROPS_FILE': path}, timeout=3000)
        rep.add_tlc(r)
        if r['violated']:
            rep.violation('model:BindingSufficient', 'the binding-order rule admits a shape that the monitor evaluates with an unbound alias (HplScoping vs HplMonitor)',
                          {'trace': [l for l in r['out'].splitlines() if l.startswith('tr = ') or l.startswith('/\\ tr')][-1:]})
        elif not r['ok']:
            raise tlc.MachineryError(r['out'][-3000:])
        r2 = tlc.run_model('MC_Monitor', cfg_text=MON_CFG % (3, 'RejectedNeverMiss'), env={'PROPS_FILE': path}, timeout=3000)
        rep.add_tlc(r2)
        if r2['violated'] != 'RejectedNeverMiss':
            raise tlc.MachineryError('no rejected shape is ever evaluated with an unbound alias: the binding theorem is vacuous on this sample\n' + r2['out'][-1500:])
        rep.cov['binding_theorem'] = {'shapes': len(shapes), 'MaxLen': maxlen, 'holds': not r['violated'], 'must_fail_instance_fails': True}
    finally:
        os.unlink(path)


def run(replay=None):
    import_hpl()
    rep = Report('C02')
    thorough = tier() == 'thorough'
    rnd = rng('c02')
    o, base = call_parser('property', 'globally: no zzz')
    assert o == 'ast'
    events, info = [], {}
    eid = 0
    for fam in ('simple', 'quant', 'disj'):
        sents, r = grammar.enumerate_shapes(fam)
        rep.add_tlc(r)
        rep.count('shapes_' + fam, len(sents))
        if False:
            sents = rnd.sample(sents, 3000)
        for s in sents:
            toks, exp = render.substitute(s, lits=grammar.STD_LITS)
            exp = grammar.fix_var_names(exp)
            text = render.layout(toks, 0)
            if not keep(text):
                continue
            eid += 1
            events.append({'id': eid, 'expected': exp, 'outs': ways(text, exp, base)})
            info[eid] = text
    binding_theorem(rep, rnd, thorough)
    canaries = []
    for ev in events:
        if all(o[1] == 'ast' for o in ev['outs']):
            c = copy.deepcopy(ev); c['id'] = CANARY_BASE + 1; c['outs'][1][1] = 'HplSanityError'; canaries.append(c)
            break
    for ev in events:
        if all(o[1] == 'HplSanityError' for o in ev['outs']):
            c = copy.deepcopy(ev); c['id'] = CANARY_BASE + 2; c['outs'][0][1] = 'ast'; canaries.append(c)
            break
    res = tlc.validate_batch('T_C02', events + canaries)
    rep.add_tlc(res)
    rep.add_traces(res['consumed'] - len(canaries))
    rep.cov['canaries_rejected'] = len(canaries)
    for k in ('must_accept', 'must_reject', 'unspecified'):
        rep.cov[k] = res['stats'].get(k, 0)
    rep.cov['exhaustive'] = True
    for i, clause in split_canaries(res, [c['id'] for c in canaries]):
        rep.violation('%s|%s' % (clause, info[i]), '%s: %r' % (clause, info[i]), {'text': info[i], 'clause': clause,
                      'outcomes': next(e['outs'] for e in events if e['id'] == i)})
    for e in events[:: max(1, len(events) // 8)]:
        rep.sample({'text': info[e['id']], 'outcomes': e['outs']})
    return rep.finish()
