"""C18 - A specification file is exactly its sequence of annotated properties."""
import copy
import json

from harness import tlc
from harness.common import CANARY_BASE, Report, import_hpl, rng, split_canaries, tier
from harness.drive import call_parser
from harness.project import project

POOL = [
    'globally: no a',                                              # bare event
    'globally: some b as B',                                       # alias
    'after c: no d {x > 0}',                                       # predicate
    'globally: (e1 or e2 {y = 1}) causes f as F within 100 ms',    # disjunction + within
    'after g as G until h {z = @G.z}: i requires j {w in [1 to 2]}',
    'until k: m forbids (n1 or n2 as N) within 2 s',
    'globally: no o {forall q in xs: @q > 0}',
    # invalid members
    'globally: no p {x >',                                         # syntax
    'globally: no r {x = @U.x}',                                   # sanity
    'globally: no s {x + "a" > 1}',                                # type
    'globally no t',                                               # syntax (missing colon)
    'globally: no u {sqroot(x) > 1}',                              # unknown function (ValueError)
    'globally: (v1 or v1) causes w',                               # sanity (duplicate channel)
]
ANN = {'id': '# id: %s', 'title': '# title: "T %s"', 'description': '# description: "d %s"', 'unknown': '# foo: "x %s"'}
WS = [' ', '\n', '\n\n', ' \n\t', '\r\n', '   ']


# characters that are neither ordinary text nor HPL white space everywhere: inside a string they are content, between
# tokens they are white space (\f, \r, \t) or illegal (the others) - for the file exactly as for the property alone
EXOTIC = ['\x0b', '\x0c', '\x1c', '\x1d', '\x1e', '\x85', '\u2028', '\u2029', '\r', '\t', '\xa0', '\x00']


def exotic_variants(text):
    """The member text with one exotic character put inside its first string literal / in place of one blank between tokens."""
    out = []
    for ch in EXOTIC:
        i = text.find('"')
        if i >= 0:
            out.append(text[:i + 1] + 'q' + ch + text[i + 1:])
        j = text.rfind(' ')
        if j >= 0:
            out.append(text[:j] + ch + text[j + 1:])
            out.append(text[:j] + ' ' + ch + text[j + 1:])
    return out


def member_text(m, n, rnd):
    if 'raw' in m:
        return m['raw']
    lines = [ANN[k] % ((m.get('idval') or 'p%d' % n) if k == 'id' else n) for k in m['ann']]
    sep = rnd.choice(WS)
    return sep.join(lines + [POOL[m['p'] - 1]])


def enumerate_members(maxm, mode, rep):
    cfg = 'SPECIFICATION Spec\nCHECK_DEADLOCK FALSE\nCONSTANT NPool = %d\nCONSTANT MaxMembers = %d\nCONSTANT AnnMode = "%s"\nINVARIANT Emit\n' % (len(POOL), maxm, mode)
    r = tlc.run_model('HplFiles', cfg_text=cfg, workers=1, timeout=3000)
    if not r['ok']:
        raise tlc.MachineryError(r['out'][-2000:])
    rep.add_tlc(r)
    return [json.loads(t[1]) for t in r['tuples'] if t[0] == 'S']


def run(replay=None):
    import_hpl()
    rep = Report('C18')
    thorough = tier() == 'thorough'
    rnd = rng('c18')
    files = enumerate_members(1, 'all', rep)                 # every single-member file
    two = enumerate_members(2, 'small', rep)                 # every two-member file over the small annotation set
    two = [f for f in two if len(f) == 2]
    if not thorough and len(two) > 1500:
        two = rnd.sample(two, 1500)
    files += two
    singles = [f[0] for f in files if len(f) == 1]
    for _ in range(3000 if thorough else 500):               # longer files (3..6 members), at most one invalid member
        k = rnd.randrange(3, 7)
        ms = []
        invalid_used = False
        while len(ms) < k:
            m = rnd.choice(singles)
            bad = m['p'] > 7 or len(set(m['ann'])) != len(m['ann']) or 'unknown' in m['ann']
            if bad and invalid_used:
                continue
            if bad and rnd.random() < 0.7:
                continue
            invalid_used = invalid_used or bad
            ms.append(m)
        files.append(ms)
    # the same body several times with different annotation blocks
    for p in range(1, 8):
        files.append([{'p': p, 'ann': ['id', 'title']}, {'p': p, 'ann': ['description', 'id']}])
        files.append([{'p': p, 'ann': ['id']}, {'p': p, 'ann': []}, {'p': p, 'ann': ['title']}])
    same_id = []
    for a in range(1, 8):
        b = a % 7 + 1
        same_id.append([{'p': a, 'ann': ['id', 'title'], 'idval': 'shared'}, {'p': b, 'ann': ['id'], 'idval': 'shared'}])
        same_id.append([{'p': a, 'ann': ['id'], 'idval': 'shared'}, {'p': b, 'ann': []}, {'p': a, 'ann': ['description', 'id'], 'idval': 'shared'}])
    files += same_id
    # members containing exotic characters (inside strings / between tokens), alone and next to ordinary members
    nex = 0
    for p, ann in ((1, ['title']), (3, ['id', 'description']), (4, []), (5, ['title', 'id']), (7, ['description'])):
        base = member_text({'p': p, 'ann': ann}, 9, rnd)
        base2 = base.replace('x > 0', 'x > 0 and s = "lit"').replace('y = 1', 's = "lit"')
        for v in exotic_variants(base) + (exotic_variants(base2) if base2 != base else []):
            m = {'p': p, 'ann': ann, 'raw': v}
            files.append([m])
            if nex % 3 == 0 or thorough:
                files.append([{'p': 2, 'ann': ['id']}, m, {'p': 6, 'ann': []}])
            nex += 1
    rep.count('files_with_exotic_characters', nex)
    files.append([])
    rep.count('files', len(files))
    events, info = [], {}
    for i, f in enumerate(files):
        parts = [member_text(m, j + 1, rnd) for j, m in enumerate(f)]
        text = rnd.choice(['', '\n', '  ']) + rnd.choice(WS).join(parts) + rnd.choice(['', '\n', ' \n'])
        out, obj = call_parser('specification', text)
        ev = {'id': i + 1, 'members': [], 'out': out, 'obs': project(obj, ids=False) if out == 'ast' else {'cls': 'None'}}
        for m, pt in zip(f, parts):
            so, sobj = call_parser('property', pt)
            ev['members'].append({'ann': m['ann'], 'out': so, 'obs': project(sobj, ids=False) if so == 'ast' else {'cls': 'None'}})
        events.append(ev)
        info[i + 1] = text
        rep.clause('file:' + out)
    canaries = []
    for ev in events:
        if ev['out'] == 'ast' and len(ev['members']) >= 2 and len(ev['obs'].get('properties', [])) >= 2 and \
                ev['obs']['properties'][0]['metadata'] != ev['obs']['properties'][1]['metadata']:
            c = copy.deepcopy(ev); c['id'] = CANARY_BASE + 1
            ps = c['obs']['properties']
            ps[0]['metadata'], ps[1]['metadata'] = ps[1]['metadata'], ps[0]['metadata']
            canaries.append(c)
            break
    res = tlc.validate_batch('T_C18', events + canaries)
    rep.add_tlc(res)
    rep.add_traces(res['consumed'] - len(canaries))
    rep.cov['canaries_rejected'] = len(canaries)
    for i, clause in split_canaries(res, [c['id'] for c in canaries]):
        rep.violation('%s|%s' % (clause.split(':')[0], info[i]), '%s on file %r' % (clause, info[i]), {'file': info[i], 'clause': clause})
    for e in events[:: max(1, len(events) // 8)]:
        rep.sample({'file': info[e['id']], 'out': e['out'], 'members': [m['out'] for m in e['members']]})
    return rep.finish()
