"""C20 - Type-set narrowing is set intersection.

G=M: MC_Types checks the lattice laws on every pair (quick) / triple (thorough) of type sets.
D  : every pair is driven through the real DataType.cast / can_be / can_be_* / union.
V  : T_C20 compares each logged result with HplTypes and checks that the pairs driven are
     exactly TypeSet x TypeSet (exhaustive)."""
import itertools

from harness import tlc
from harness.common import Report, import_hpl, rng, tier

BASES = ['BOOL', 'NUMBER', 'STRING', 'ARRAY', 'RANGE', 'SET', 'MESSAGE']


def names(dt, DataType):
    """Projection of a DataType flag value, independent of the operators under test."""
    return [b for b in BASES if (dt.value & DataType[b].value) != 0]


def tlaps_laws():
    import os
    import re
    import shutil
    import subprocess
    wd = tlc.workdir('tlaps')
    try:
        shutil.copy(os.path.join(tlc.SPEC, 'HplTypesLaws.tla'), wd)
        try:
            p = subprocess.run(['tlapm', 'HplTypesLaws.tla'], cwd=wd, stdout=subprocess.PIPE, stderr=subprocess.STDOUT, text=True, timeout=600)
        except (OSError, subprocess.TimeoutExpired) as e:
            return {'status': 'not run: %s' % type(e).__name__}
        m = re.search(r'All (\d+) obligations? proved', p.stdout)
        if not m:
            raise tlc.MachineryError('TLAPS did not prove HplTypesLaws:\n' + p.stdout[-1500:])
        return {'status': 'proved', 'obligations': int(m.group(1)), 'module': 'HplTypesLaws'}
    finally:
        shutil.rmtree(wd, ignore_errors=True)


def run(replay=None):
    import_hpl()
    from hpl.types import DataType
    rep = Report('C20')
    thorough = tier() == 'thorough'
    # --- model level
    m = tlc.run_model('MC_Types', cfg='MC_Types_thorough.cfg' if thorough else 'MC_Types.cfg')
    rep.add_tlc(m)
    if not m['ok']:
        if m['violated']:
            rep.violation('model:' + m['violated'], 'lattice law %s fails in HplTypes itself' % m['violated'], m['out'][-2000:])
        else:
            raise tlc.MachineryError(m['out'][-3000:])
    rep.cov['model_laws'] = ['Idempotent', 'Commut', 'Assoc', 'Monotone', 'CanBeLaw', 'GLB', 'LUB', 'Narrows']
    if thorough:
        # the same laws for type sets over ANY set of base types, by proof (TLAPS, spec/HplTypesLaws.tla)
        rep.cov['tlaps'] = tlaps_laws()
    # --- drive the implementation on every pair
    allv = [DataType(i) for i in range(128)]
    events = []
    eid = 0
    byid = {}

    def add(ev):
        nonlocal eid
        eid += 1
        ev['id'] = eid
        events.append(ev)
        byid[eid] = ev

    for s in allv:
        for t in allv:
            ev = {'op': 'cast', 's': names(s, DataType), 't': names(t, DataType), 'r': []}
            try:
                r = s.cast(t)
                ev['out'] = 'ok'
                ev['r'] = names(r, DataType)
            except Exception as e:  # noqa
                ev['out'] = type(e).__name__
            add(ev)
            add({'op': 'can_be', 's': ev['s'], 't': ev['t'], 'r': bool(s.can_be(t))})
    for s in allv:
        for b in BASES:
            add({'op': 'can_be_base', 's': names(s, DataType), 'base': b,
                 'r': bool(getattr(s, 'can_be_' + b.lower()))})
    # narrowing as AST nodes do it: node.cast(s).cast(t)[.cast(u)] on references whose type set is still wide; every step
    # must be the intersection of the node's CURRENT type set with the argument (or a type error)
    from harness.drive import call_parser
    nodes = []
    for tx in ('@x', 'a', 'xs[0]', 'm.f'):
        po, pobj = call_parser('expression', tx)
        if po == 'ast':
            nodes.append(pobj)
        else:
            rep.skip('expr_cast:cannot parse %s (%s)' % (tx, po))     # (a broken lattice can make even this fail)
    rq = rng('c20x')

    def step(node, t):
        ev = {'op': 'expr_cast', 's': names(node.data_type, DataType), 't': names(t, DataType), 'r': []}
        try:
            r2 = node.cast(t)
            ev['out'] = 'ok'
            ev['r'] = names(r2.data_type, DataType)
        except Exception as e:  # noqa
            r2 = None
            ev['out'] = type(e).__name__
        add(ev)
        return r2
    for node in nodes:
        for s1 in allv:
            n1 = step(node, s1)
            if n1 is None:
                continue
            for t1 in (allv if (thorough or node is nodes[0]) else rq.sample(allv, 24)):   # noqa
                n2 = step(n1, t1)
                if n2 is not None and rq.random() < (0.2 if thorough else 0.03):
                    step(n2, rq.choice(allv))
    # narrowing at construction: a child whose stored type set is s, put into a slot whose declared parameter type is P,
    # is stored in the new node with type s /\ P (or the constructor raises a type error) - for every s and every kind of slot
    from hpl.ast import expressions as E

    def lit(v):
        return call_parser('expression', v)[1]
    P = {n: getattr(DataType, n) for n in ('BOOL', 'NUMBER', 'STRING', 'ARRAY', 'RANGE', 'SET', 'MESSAGE')}
    PRIM, COMP = DataType.PRIMITIVE, DataType.COMPOUND
    slots = [
        ('set element', PRIM, lambda c: E.HplSet((c, lit('1'))).values[0]),
        ('range lower bound', P['NUMBER'], lambda c: E.HplRange(c, lit('1')).min_value),
        ('range upper bound', P['NUMBER'], lambda c: E.HplRange(lit('1'), c).max_value),
        ('index', P['NUMBER'], lambda c: E.HplArrayAccess(lit('xs'), c).index),
        ('indexed array', P['ARRAY'], lambda c: E.HplArrayAccess(c, lit('0')).array),
        ('field owner', P['MESSAGE'], lambda c: E.HplFieldAccess(c, 'f').message),
        ('operand of not', P['BOOL'], lambda c: E.HplUnaryOperator('not', c).operand),
        ('operand of unary minus', P['NUMBER'], lambda c: E.HplUnaryOperator('-', c).operand),
        ('left operand of +', P['NUMBER'], lambda c: E.HplBinaryOperator('+', c, lit('1')).operand1),
        ('right operand of <', P['NUMBER'], lambda c: E.HplBinaryOperator('<', lit('1'), c).operand2),
        ('left operand of and', P['BOOL'], lambda c: E.HplBinaryOperator('and', c, lit('p')).operand1),
        ('left operand of in', PRIM, lambda c: E.HplBinaryOperator('in', c, lit('{1, 2}')).operand1),
        ('right operand of in', COMP, lambda c: E.HplBinaryOperator('in', lit('1'), c).operand2),
        ('argument of abs', P['NUMBER'], lambda c: E.HplFunctionCall('abs', (c,)).arguments[0]),
        ('quantifier domain', COMP, lambda c: E.HplQuantifier('forall', 'k', c, lit('@k > 0')).domain),
    ]
    try:
        base = lit('@v')
        for sname, ptype, build in slots:
            for s1 in allv:
                try:
                    child = base.cast(s1)
                except Exception:  # noqa  (s1 shares nothing with what a variable can be: no such child)
                    continue
                ev = {'op': 'expr_cast', 'slot': sname, 's': names(child.data_type, DataType), 't': names(ptype, DataType), 'r': []}
                try:
                    r2 = build(child)
                    ev['out'] = 'ok'
                    ev['r'] = names(r2.data_type, DataType)
                except Exception as e:  # noqa
                    ev['out'] = type(e).__name__
                add(ev)
    except Exception as e:  # noqa
        rep.skip('slot narrowing not driven: %s' % type(e).__name__)
    # unions: all pairs, plus triples (sampled in quick, more in thorough)
    for s in allv:
        for t in allv:
            add({'op': 'union', 'args': [names(s, DataType), names(t, DataType)],
                 'r': names(DataType.union([s, t]), DataType)})
    r = rng('c20')
    ntr = 20000 if thorough else 2000
    for _ in range(ntr):
        k = r.choice([0, 1, 3, 4])
        args = [r.choice(allv) for _ in range(k)]
        add({'op': 'union', 'args': [names(a, DataType) for a in args],
             'r': names(DataType.union(iter(args)), DataType)})
    res = tlc.validate_batch('T_C20', events, shards=1, consts={'COMPLETE': '1'})
    rep.add_tlc(res)
    rep.add_traces(res['consumed'])
    rep.cov['exhaustive'] = True
    rep.cov['pairs'] = res['stats'].get('complete_pairs', 0)
    for i, clause in res['bad']:
        ev = byid.get(i, {'op': 'batch'})
        s = '%s:%s:%s:%s' % (clause, ev.get('op'), ','.join(ev.get('s', [])), ','.join(ev.get('t', ev.get('base', ''))) if isinstance(ev.get('t', ''), list) else ev.get('base', ''))
        rep.violation(s, 'DataType.%s disagrees with set intersection/union (%s)' % (ev.get('op'), clause), ev)
    rep.sample(events[5000])
    rep.sample(events[20001])
    rep.sample(events[-1])
    rep.assumptions = ['projection of a DataType value reads the bits of .value against the 7 base members',
                       'TLC evaluates HplTypes correctly']
    return rep.finish()
