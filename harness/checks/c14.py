"""C14 - Rewriting functions are total on valid inputs (documented result kinds, no internal errors)."""
import itertools

from harness.common import Report, import_hpl, rng, tier
from harness.corpus import accepted
from harness.drive import call_parser
from harness.rewrite_driver import Recorder, corrupt_first, family_texts, parse_inputs

FAMS = ['funs', 'incl', 'quants', 'slots', 'bool1w', 'num1w', 'alias', 'cmp11', 'foldidx', 'cancel', 'resolve', 'negbool', 'capture', 'powpow', 'mixin']
TOTALITY = ('Raises:', 'SameKind', 'SameType', 'NonEmptyList', 'ValueErrorOnlyIfUnsatisfiable', 'TypeErrorOnlyOnCoincidenceClash')


def api_calls():
    """Function calls that the grammar cannot spell (several arguments): built through the API."""
    from hpl.ast.expressions import HplFunctionCall
    P = lambda t: call_parser('expression', t)[1]
    atoms = ['1', '2', '4', '6', 'x', 'y', '- 1', 'x + 1']
    out = []
    for f in ('max', 'min', 'gcd'):
        for n in (2, 3):
            for args in itertools.product(atoms[:6], repeat=n):
                if n == 3 and len(set(args)) < 2:
                    continue
                out.append((f, args))
    for f in ('log', 'atan2'):
        for args in itertools.product(['1', '2', '10', 'x'], repeat=2):
            out.append((f, args))
    for f in ('roll', 'pitch', 'yaw'):
        out.append((f, ('0', '0', '0', '1')))
        out.append((f, ('x', 'y', '0', '1')))
        out.append((f, ('@A',)))
        out.append((f, ('m',)))
    res = []
    for f, args in out:
        try:
            res.append(('%s(%s)' % (f, ', '.join(args)), HplFunctionCall(f, tuple(P(a) for a in args))))
        except Exception:  # noqa  (construction itself is not under test here)
            pass
    return res


def canary(events):
    def ok(ev):
        return ev['op'] == 'simplify' and ev['out'] == 'ok' and ev['in'].get('cls') not in ('HplPredicateExpression', 'HplVacuousTruth', 'HplContradiction')

    def mut(c):
        c['outs'] = [{'cls': 'HplVacuousTruth', 'metadata': []}]      # an expression went in, a predicate came out
    a = corrupt_first(events, ok, mut, 1)

    def ok2(ev):
        return ev['op'] == 'split_and' and ev['out'] == 'ok'

    def mut2(c):
        c['out'] = 'KeyError'
        c['outs'] = []
    return a + corrupt_first(events, ok2, mut2, 2)


def run(replay=None):
    import_hpl()
    rep = Report('C14')
    thorough = tier() == 'thorough'
    rnd = rng('c14')
    rec = Recorder(rep, rnd, 16 if thorough else 8)
    texts = family_texts(list(FAMS) + [('rand', 5000, 5) if thorough else ('rand', 800, 4)], rep, rnd, cap=None if thorough else 1000)
    texts += [('vacuous', 'True'), ('vacuous', 'False')]
    from hpl.types import DataType
    for fam, text, entry, obj in parse_inputs(texts, ('expression', 'condition')):
        isbool = entry == 'condition' or obj.data_type == DataType.BOOL
        rec.simplify(text, obj)
        rec.replace(text, obj, True, 'M')
        rec.replace(text, obj, False, 'A')
        rec.refactor(text, obj, 'A')
        if isbool:
            rec.split_and(text, obj)
            if rnd.random() < 0.3:
                rec.refactor(text, obj, 'C')
    for text, obj in api_calls():
        rec.simplify(text, obj)
        rec.replace(text, obj, True, 'M')
        rec.replace(text, obj, False, 'A')
        rec.refactor(text, obj, 'A')
    props, stats = accepted(thorough, salt='c14')
    rep.add_tlc(stats)
    n = 0
    for text, entry, obj in props:
        if entry == 'property':
            rec.canonical(text, obj)
            n += 1
    for text in EXTRA_PROPS:
        o, obj = call_parser('property', text)
        if o == 'ast':
            rec.canonical(text, obj)
    rep.count('properties', n)
    for i, clause in rec.validate(canary):
        if not clause.startswith(TOTALITY):
            continue          # semantic clauses are judged by C08-C13
        inf = dict(rec.info[i])
        inf['pin'] = rec.event_dict(i)['in']
        rep.violation(signature(clause, inf), '%s(%r) -> %s violates %s' % (inf['op'], inf['text'], inf['result'] or inf['out'], clause), inf)
    for e in rec.dict_events()[:: max(1, len(rec.dict_events()) // 8)]:
        rep.sample({'op': e['op'], 'input': rec.info[e['id']]['text'], 'outcome': e['out']})
    return rep.finish()


EXTRA_PROPS = [
    'globally: (b1 as X or b2) requires a {x = @X.x}',
    'after (p as P or q): (b1 or b2 {y > 0}) requires a {x > 0} within 100 ms',
    'after (p as P or q) until r {z = @P.z}: no (b1 or b2)',
    'until (p or q): some (b1 or b2)',
    'globally: (a1 or a2 as A) causes (b1 or b2)',
    'globally: (a1 or a2 or a3) forbids (b1 or b2 or b3 or b4) within 2 s',
    'globally: no (a {False} or b {False})', 'after (a {False} or b {False}): some c', 'globally: (a {False} or b {False}) causes c within 1 s',
    'after (p {False} or q {False}) until r: (a {False} or b) requires (c {False} or d {False})', 'globally: no (a {True} or b {False})',
    'globally: d forbids (a as A {False} or b as B {False} or c)',
]


def _simple(e):
    if e.get('cls') == 'HplEventDisjunction':
        return _simple(e['event1']) + _simple(e['event2'])
    return [e] if e.get('cls') == 'HplSimpleEvent' else []


def _refs(n, acc):
    if isinstance(n, dict):
        if n.get('cls') == 'HplVarReference':
            acc.add(n['name'])
        for v in n.values():
            _refs(v, acc)
    elif isinstance(n, list):
        for v in n:
            _refs(v, acc)


def partial_alias_shape(pin):
    """The known-finding shape: an alias bound by only some alternatives of a disjunction that
    canonical_form splits is referenced by another event."""
    evs = [pin['scope']['activator'], pin['scope']['terminator'], pin['pattern']['trigger'], pin['pattern']['behaviour']]
    used = set()
    _refs(evs, used)
    for e in evs:
        alts = _simple(e)
        if len(alts) < 2:
            continue
        bound = [a['alias'][1] for a in alts if a['alias'][0] == 'some']
        for al in set(bound):
            if al in used and bound.count(al) < len(alts):
                return True
    return False


def signature(clause, inf):
    if inf['op'] == 'canonical_form' and clause == 'Raises:HplSanityError' and partial_alias_shape(inf['pin']):
        return 'canonical_form:HplSanityError:alias-bound-by-only-some-alternatives-is-referenced-later'
    return '%s|%s|%s' % (clause, inf['op'], inf['text'])
