"""Driving the L1 grammar machine (spec/HplGrammar.tla): enumerate / simulate derivations with TLC
and return the complete sentences with the AST the grammar assigns to them."""
import hashlib
import json
import os

from harness import tlc

DEFAULTS = dict(
    Start=0, MaxTok=5,
    IfOps=['implies', 'iff'], OrOps=['or'], AndOps=['and'], NotOps=['not'], Quants=['forall', 'exists'],
    RelOps=['=', '!=', '<', '<=', '>', '>=', 'in'], AddOps=['+', '-'], MulOps=['*', '/'], PowOps=['**'],
    NegOps=['-'], Parens=True, Bools=['True', 'False'], Strs=['$s'], Nums=['1'], Consts=['PI'],
    CallFuns=['abs'], SetLens=[1, 2], RangeL=['[', '!['], RangeR=[']', ']!'],
    Names=['a'], Vars=['@v'], Fields=['f'], QVars=['x'],
    Channels=['t'], AliasNames=['A'], Times=['100'], Units=['s', 'ms'], DisjLens=[2], ScopeKinds=['globally', 'after', 'until', 'after_until'],
    PatternKinds=['some', 'no', 'causes', 'forbids', 'requires'], PredPool=None,
)


STD_LITS = {'$s': ('"s"', ['s', '"s"']), '$t': ('"a b"', ['s', '"a b"'])}


def _val(v):
    if isinstance(v, bool):
        return 'TRUE' if v else 'FALSE'
    if isinstance(v, int):
        return str(v)
    if isinstance(v, str):
        return '"%s"' % v.replace('\\', '\\\\').replace('"', '\\"')
    if isinstance(v, (list, tuple, set)):
        return '{' + ', '.join(_val(x) for x in v) + '}'
    raise TypeError(v)


def make_cfg(params, invariants=('Emit',), spec='Spec'):
    p = dict(DEFAULTS)
    p.update(params)
    lines = ['SPECIFICATION ' + spec, 'CHECK_DEADLOCK FALSE']
    for k, v in p.items():
        if k == 'PredPool':
            lines.append('CONSTANT PredPool <- %s' % (v or 'EmptyPool'))
        else:
            lines.append('CONSTANT %s = %s' % (k, _val(v)))
    for inv in invariants:
        lines.append('INVARIANT %s' % inv)
    return '\n'.join(lines) + '\n'


def _spec_hash():
    h = hashlib.sha256()
    for f in ('HplGrammar.tla', 'HplAst.tla', 'HplTypes.tla', 'MC_Grammar.tla', 'HplTypedGen.tla', 'HplShapes.tla'):
        with open(os.path.join(tlc.SPEC, f), 'rb') as fh:
            h.update(fh.read())
    return h


def enumerate_language(params, cache=True, simulate=None, timeout=3600, seed=0):
    """Returns (sentences, tlc_result).  sentences: list of {'toks': [...], 'ast': {...}}."""
    cfg = make_cfg(params)
    h = _spec_hash()
    h.update(cfg.encode())
    h.update(repr((simulate, seed)).encode())
    key = h.hexdigest()[:20]
    cdir = os.path.join(tlc.BUILD, 'lang')
    os.makedirs(cdir, exist_ok=True)
    cpath = os.path.join(cdir, key + '.json')
    if cache and os.path.exists(cpath):
        with open(cpath) as f:
            d = json.load(f)
        return d['sentences'], d['res']
    res = tlc.run_model('MC_Grammar', cfg_text=cfg, workers=1, timeout=timeout, simulate=simulate,
                        extra=(['-depth', '400', '-seed', str(seed)] if simulate else None))
    if not res['ok']:
        raise tlc.MachineryError('grammar machine failed:\n' + res['out'][-3000:])
    sents = []
    seen = set()
    for t in res['tuples']:
        if t and t[0] == 'S':
            if t[1] in seen:
                continue
            seen.add(t[1])
            sents.append(json.loads(t[1]))
    r = dict(generated=res['generated'], distinct=res['distinct'], wall=res['wall'])
    if cache:
        with open(cpath, 'w') as f:
            json.dump({'sentences': sents, 'res': r}, f)
        _prune_cache(cdir)
    return sents, r


def enumerate_shapes(family, cache=True, timeout=3600):
    """All members of a property-shape family of spec/HplShapes.tla."""
    return enumerate_family(family, cache=cache, timeout=timeout, module='MC_Shapes', spec='SSpec', const='ShapeFamily')


def enumerate_family(family, cache=True, timeout=3600, module='MC_TypedGen', spec='TSpec', const='Family', rand=None):
    """All members of a typed family of spec/HplTypedGen.tla: list of {'toks','ast'}.
    rand=(n, depth, seed): the random family (TLC RandomElement, reproducible through -seed)."""
    params = {'Family': family if const == 'Family' else 'none', 'RandN': rand[0] if rand else 1, 'RandDepth': rand[1] if rand else 1}
    if const != 'Family':
        params[const] = family
    cfg = make_cfg(params, spec=spec)
    h = _spec_hash()
    h.update(cfg.encode())
    h.update(repr(rand).encode())
    key = 'fam-' + module + '-' + family + '-' + h.hexdigest()[:16]
    cdir = os.path.join(tlc.BUILD, 'lang')
    os.makedirs(cdir, exist_ok=True)
    cpath = os.path.join(cdir, key + '.json')
    if cache and os.path.exists(cpath):
        with open(cpath) as f:
            d = json.load(f)
        return d['sentences'], d['res']
    res = tlc.run_model(module, cfg_text=cfg, workers=1, timeout=timeout, extra=(['-seed', str(rand[2])] if rand else None))
    if not res['ok']:
        raise tlc.MachineryError('typed generator failed:\n' + res['out'][-3000:])
    sents, seen = [], set()
    for t in res['tuples']:
        if t and t[0] == 'S' and t[1] not in seen:
            seen.add(t[1])
            sents.append(json.loads(t[1]))
    r = dict(generated=res['generated'], distinct=res['distinct'], wall=res['wall'])
    if cache:
        with open(cpath, 'w') as f:
            json.dump({'sentences': sents, 'res': r}, f)
        _prune_cache(cdir)
    return sents, r


def _prune_cache(cdir, keep=120):
    """The cache is keyed by the hash of the spec: entries of older spec versions are never hit again."""
    try:
        fs = sorted((os.path.join(cdir, f) for f in os.listdir(cdir) if f.endswith('.json')), key=os.path.getmtime)
        for f in fs[:-keep]:
            os.unlink(f)
    except OSError:
        pass


def fix_var_names(ast):
    """The machine cannot cut the '@' off a VAR_REF token (TLC strings are atomic); do it here."""
    if isinstance(ast, dict):
        if ast.get('cls') == 'HplVarReference' and isinstance(ast.get('name'), str) and ast['name'].startswith('@'):
            ast = dict(ast)
            ast['name'] = ast['name'][1:]
            return ast
        return {k: fix_var_names(v) for k, v in ast.items()}
    if isinstance(ast, list):
        return [fix_var_names(x) for x in ast]
    return ast
