"""Drives the rewriting API of hpl on TLC-generated inputs and records one event per call in the
format of spec/T_Rewrite.tla (shared by C08, C09, C10, C13, C14)."""
import copy

from harness import grammar, render, tlc
from harness.common import CANARY_BASE, keep, split_canaries
from harness.drive import call_parser, exc_name
from harness.project import project
from harness.valuations import valuations


def family_texts(fams, rep, rnd, cap=None):
    from harness.common import seed
    out = []
    for fam in fams:
        if isinstance(fam, tuple):      # ('rand', n, depth): random deep terms, reproducible through VERIF_SEED
            sents, r = grammar.enumerate_family('rand', rand=(fam[1], fam[2], 1000 + seed()))
            fam = 'rand%d' % fam[2]
        else:
            sents, r = grammar.enumerate_family(fam)
        rep.add_tlc(r)
        if cap and len(sents) > cap:
            sents = rnd.sample(sents, cap)
        rep.count('family_' + fam, len(sents))
        for s in sents:
            toks, _ = render.substitute(s, lits=grammar.STD_LITS)
            if keep(' '.join(toks)):
                out.append((fam, ' '.join(toks)))
    return out


class Recorder:
    def __init__(self, rep, rnd, nval):
        self.rep, self.rnd, self.nval = rep, rnd, nval
        self.events, self.info = [], {}
        self.eid = 0

    def add(self, op, text, pin, out, outs, extra=None, rho_node=None, desc=''):
        self.eid += 1
        ev = {'id': self.eid, 'op': op, 'in': pin, 'outs': outs, 'out': out, 'alias': '', 'in2': {'cls': 'None'},
              'same1': False, 'same2': False, 'roundtrip': ['na'], 'extrefs': [],
              'rhos': valuations(rho_node if rho_node is not None else pin, limit=self.nval, rnd=self.rnd)}
        if extra:
            ev.update(extra)
        # the first events stay inspectable (canaries are made from them); the rest are kept as JSON text
        self.events.append(ev if len(self.events) < 4000 else tlc.pack(ev))
        self.info[self.eid] = {'op': op, 'text': text, 'out': out, 'result': desc}
        self.rep.clause('%s:%s' % (op, out))
        return ev

    # ---- one method per API function -------------------------------------------------
    def simplify(self, text, obj):
        from hpl.rewrite import simplify
        pin = project(obj, ids=False)
        try:
            r = simplify(obj)
            self.add('simplify', text, pin, 'ok', [project(r, ids=False)], desc=str(r))
        except Exception as e:  # noqa
            self.add('simplify', text, pin, exc_name(e), [], desc=repr(e)[:200])

    def split_and(self, text, obj):
        from hpl.rewrite import split_and
        pin = project(obj, ids=False)
        try:
            r = split_and(obj)
            self.add('split_and', text, pin, 'ok', [project(x, ids=False) for x in r], desc=' ;; '.join(str(x) for x in r))
        except Exception as e:  # noqa
            self.add('split_and', text, pin, exc_name(e), [], desc=repr(e)[:200])

    def refactor(self, text, obj, alias):
        from hpl.rewrite import refactor_reference
        pin = project(obj, ids=False)
        try:
            f1, f2 = refactor_reference(obj, alias)
            self.add('refactor_reference', text, pin, 'ok', [project(f1, ids=False), project(f2, ids=False)],
                     extra={'alias': alias, 'same1': f1 is obj}, desc='%s ;; %s' % (f1, f2))
        except Exception as e:  # noqa
            self.add('refactor_reference', text, pin, exc_name(e), [], extra={'alias': alias}, desc=repr(e)[:200])

    def negate(self, text, pred):
        pin = project(pred, ids=False)
        try:
            r = pred.negate()
            self.add('negate', text, pin, 'ok', [project(r, ids=False)], desc=str(r))
        except Exception as e:  # noqa
            self.add('negate', text, pin, exc_name(e), [], desc=repr(e)[:200])

    def join(self, text, p, q, qtext):
        pin, pin2 = project(p, ids=False), project(q, ids=False)
        pair = {'cls': 'Pair', 'a': pin, 'b': pin2}
        try:
            r = p.join(q)
            self.add('join', text + ' JOIN ' + qtext, pin, 'ok', [project(r, ids=False)],
                     extra={'in2': pin2, 'same1': r is p, 'same2': r is q}, rho_node=pair, desc=str(r))
        except Exception as e:  # noqa
            self.add('join', text + ' JOIN ' + qtext, pin, exc_name(e), [], extra={'in2': pin2}, rho_node=pair, desc=repr(e)[:200])

    def replace(self, text, obj, to_var, alias):
        from hpl.rewrite import replace_this_with_var, replace_var_with_this
        op = 'replace_this_with_var' if to_var else 'replace_var_with_this'
        pin = project(obj, ids=False)
        try:
            r = (replace_this_with_var if to_var else replace_var_with_this)(obj, alias)
            rt = ['na']
            if to_var:
                try:
                    rt = ['ok', project(replace_var_with_this(r, alias), ids=False)]
                except Exception as e:  # noqa
                    rt = ['exc', exc_name(e)]
            self.add(op, text, pin, 'ok', [project(r, ids=False)], extra={'alias': alias, 'roundtrip': rt}, desc=str(r))
        except Exception as e:  # noqa
            self.add(op, text, pin, exc_name(e), [], extra={'alias': alias}, desc=repr(e)[:200])

    def event(self, text, pred, alias):
        from hpl.ast.events import HplSimpleEvent
        pin = project(pred, ids=False)
        try:
            ev = HplSimpleEvent.publish('t', alias=alias, predicate=pred)
            self.add('event', text, pin, 'ok', [project(ev, ids=False)],
                     extra={'alias': alias, 'extrefs': sorted(ev.external_references())}, desc=str(ev))
        except Exception as e:  # noqa
            self.add('event', text, pin, exc_name(e), [], extra={'alias': alias}, desc=repr(e)[:200])

    def canonical(self, text, prop):
        from hpl.rewrite import canonical_form
        pin = project(prop, ids=False)
        try:
            r = canonical_form(prop)
            self.add('canonical_form', text, pin, 'ok', [project(x, ids=False) for x in r], rho_node={'cls': 'None'},
                     desc=' ;; '.join(str(x) for x in r))
        except Exception as e:  # noqa
            self.add('canonical_form', text, pin, exc_name(e), [], rho_node={'cls': 'None'}, desc=repr(e)[:200])

    def dict_events(self):
        return [e for e in self.events if isinstance(e, dict)]

    def event_dict(self, i):
        import json
        for e in self.events:
            if e['id'] == i:
                return e if isinstance(e, dict) else json.loads(e.text)
        raise KeyError(i)

    # ---- validation ------------------------------------------------------------------
    def validate(self, canary_maker=None):
        canaries = canary_maker(self.dict_events()) if canary_maker else []
        res = tlc.validate_batch('T_Rewrite', self.events + canaries, heap='3g')
        self.rep.add_tlc(res)
        self.rep.add_traces(res['consumed'] - len(canaries))
        self.rep.cov['canaries_rejected'] = len(canaries)
        self.rep.cov['valuations_judged'] = res['stats'].get('judged', 0)
        for k in ('skipU', 'skipO', 'skipR'):
            self.rep.skip(k, res['stats'].get(k, 0))
        self.rep.skip('NoJudgedValuation', len(res['skip']))
        return split_canaries(res, [c['id'] for c in canaries])


def derived_after_use(obj):
    """[(how, object)] reached from `obj` through the public copy / substitution API.  Called AFTER `obj` has been
    handed to the function under test, so that anything that call left behind on `obj` (or on its nodes) and that a
    copy inherits shows up when the same function is applied to the copy (the validator judges every (input, output)
    pair on its own, so a derived input needs no special treatment)."""
    from hpl import rewrite as R
    from hpl.ast.expressions import HplBinaryOperator, HplExpression, HplQuantifier, HplVarReference
    out = []

    def attempt(how, thunk):
        try:
            r = thunk()
        except Exception:  # noqa  (an inapplicable derivation is not the subject here)
            return
        if r is not obj:
            out.append((how, r))
    try:
        refs = sorted(obj.external_references())
    except Exception:  # noqa
        refs = []
    try:
        has_this = bool(obj.contains_self_reference())
    except Exception:  # noqa
        has_this = False
    if has_this:
        attempt('replace_this_with_var(M)', lambda: R.replace_this_with_var(obj, 'M'))
    for a in refs[:2]:
        attempt('replace_var_with_this(%s)' % a, lambda a=a: R.replace_var_with_this(obj, a))
        attempt('replace_var_reference(%s:=@Zq)' % a, lambda a=a: obj.replace_var_reference(a, HplVarReference('@Zq')))
    if not has_this and refs:
        attempt('replace_var_reference(%s:=@%s)' % (refs[0], refs[-1] if len(refs) > 1 else 'Zr'),
                lambda: obj.replace_var_reference(refs[0], HplVarReference('@' + (refs[-1] if len(refs) > 1 else 'Zr'))))
    e = obj if isinstance(obj, HplExpression) else None
    if isinstance(e, HplBinaryOperator) and e.operator.token in ('and', 'or', 'implies', 'iff', '+', '*'):
        attempt('but(operand1=operand2)', lambda: e.but(operand1=e.operand2))
        attempt('but(operand2=operand1)', lambda: e.but(operand2=e.operand1))
    if isinstance(e, HplQuantifier):
        attempt('but(quantifier flipped)', lambda: e.but(quantifier='exists' if e.is_universal else 'forall'))
    return out


def derived_pass(used, call, rnd, cap, prepare=None):
    """used: [(text, obj)] already handed to the function under test; call(text, obj) records one more call.
    Applies the function to copies derived from a sample of the used objects, then once more to the originals."""
    sample = used if len(used) <= cap else rnd.sample(used, cap)
    if prepare:
        for text, obj in sample:
            prepare(text, obj)
    n = 0
    for text, obj in sample:
        ds = derived_after_use(obj)
        for how, o2 in ds:
            call('%s   [copy made by %s after the original was used]' % (text, how), o2)
            n += 1
        if ds:
            call('%s   [the original, again, after its copies were used]' % text, obj)
    return n


def parse_inputs(texts, entries=('expression',), boolean_only=False):
    """[(fam, text, entry, obj)] for accepted texts (boolean_only: expressions must be exactly BOOL)."""
    from hpl.types import DataType
    out = []
    for fam, text in texts:
        for entry in entries:
            o, obj = call_parser(entry, text)
            if o == 'ast':
                if boolean_only and entry == 'expression' and obj.data_type != DataType.BOOL:
                    continue
                out.append((fam, text, entry, obj))
    return out


def corrupt_first(events, pred, mutate, cid, n=5):
    """Up to n canaries of one kind (group cid): the same corruption applied to n different recorded events."""
    out = []
    for ev in events:
        if pred(ev):
            c = copy.deepcopy(ev)
            c['id'] = CANARY_BASE + 100 * cid + len(out)
            mutate(c)
            out.append(c)
            if len(out) >= n:
                break
    return out
