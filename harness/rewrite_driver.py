"""Drives the rewriting API of hpl on TLC-generated inputs and records one event per call in the
format of spec/T_Rewrite.tla (shared by C08, C09, C10, C13, C14)."""
import copy

from harness import grammar, render, tlc
from harness.common import CANARY_BASE, keep, split_canaries
from harness.drive import call_parser, exc_name
from harness.project import project
from harness.valuations import valuations


def family_texts(fams, rep, rnd, cap=None):
    from harness.common import seed
    out = []
    for fam in fams:
        if isinstance(fam, tuple):      # ('rand', n, depth): random deep terms, reproducible through VERIF_SEED
            sents, r = grammar.enumerate_family('rand', rand=(fam[1], fam[2], 1000 + seed()))
            fam = 'rand%d' % fam[2]
        else:
            sents, r = grammar.enumerate_family(fam)
        rep.add_tlc(r)
        if cap and len(sents) > cap:
            sents = rnd.sample(sents, cap)
        rep.count('family_' + fam, len(sents))
        for s in sents:
            toks, _ = render.substitute(s, lits=grammar.STD_LITS)
            if keep(' '.join(toks)):
                out.append((fam, ' '.join(toks)))
    return out


class Recorder:
    def __init__(self, rep, rnd, nval):
        self.rep, self.rnd, self.nval = rep, rnd, nval
        self.events, self.info = [], {}
        self.eid = 0

    def add(self, op, text, pin, out, outs, extra=None, rho_node=None, desc=''):
        self.eid += 1
        ev = {'id': self.eid, 'op': op, 'in': pin, 'outs': outs, 'out': out, 'alias': '', 'in2': {'cls': 'None'},
              'same1': False, 'same2': False, 'roundtrip': ['na'], 'extrefs': [],
              'rhos': valuations(rho_node if rho_node is not None else pin, limit=self.nval, rnd=self.rnd)}
        if extra:
            ev.update(extra)
        self.events.append(ev)
        self.info[self.eid] = {'op': op, 'text': text, 'out': out, 'result': desc}
        self.rep.clause('%s:%s' % (op, out))
        return ev

    # ---- one method per API function -------------------------------------------------
    def simplify(self, text, obj):
        from hpl.rewrite import simplify
        pin = project(obj, ids=False)
        try:
            r = simplify(obj)
            self.add('simplify', text, pin, 'ok', [project(r, ids=False)], desc=str(r))
        except Exception as e:  # noqa
            self.add('simplify', text, pin, exc_name(e), [], desc=repr(e)[:200])

    def split_and(self, text, obj):
        from hpl.rewrite import split_and
        pin = project(obj, ids=False)
        try:
            r = split_and(obj)
            self.add('split_and', text, pin, 'ok', [project(x, ids=False) for x in r], desc=' ;; '.join(str(x) for x in r))
        except Exception as e:  # noqa
            self.add('split_and', text, pin, exc_name(e), [], desc=repr(e)[:200])

    def refactor(self, text, obj, alias):
        from hpl.rewrite import refactor_reference
        pin = project(obj, ids=False)
        try:
            f1, f2 = refactor_reference(obj, alias)
            self.add('refactor_reference', text, pin, 'ok', [project(f1, ids=False), project(f2, ids=False)],
                     extra={'alias': alias, 'same1': f1 is obj}, desc='%s ;; %s' % (f1, f2))
        except Exception as e:  # noqa
            self.add('refactor_reference', text, pin, exc_name(e), [], extra={'alias': alias}, desc=repr(e)[:200])

    def negate(self, text, pred):
        pin = project(pred, ids=False)
        try:
            r = pred.negate()
            self.add('negate', text, pin, 'ok', [project(r, ids=False)], desc=str(r))
        except Exception as e:  # noqa
            self.add('negate', text, pin, exc_name(e), [], desc=repr(e)[:200])

    def join(self, text, p, q, qtext):
        pin, pin2 = project(p, ids=False), project(q, ids=False)
        pair = {'cls': 'Pair', 'a': pin, 'b': pin2}
        try:
            r = p.join(q)
            self.add('join', text + ' JOIN ' + qtext, pin, 'ok', [project(r, ids=False)],
                     extra={'in2': pin2, 'same1': r is p, 'same2': r is q}, rho_node=pair, desc=str(r))
        except Exception as e:  # noqa
            self.add('join', text + ' JOIN ' + qtext, pin, exc_name(e), [], extra={'in2': pin2}, rho_node=pair, desc=repr(e)[:200])

    def replace(self, text, obj, to_var, alias):
        from hpl.rewrite import replace_this_with_var, replace_var_with_this
        op = 'replace_this_with_var' if to_var else 'replace_var_with_this'
        pin = project(obj, ids=False)
        try:
            r = (replace_this_with_var if to_var else replace_var_with_this)(obj, alias)
            rt = ['na']
            if to_var:
                try:
                    rt = ['ok', project(replace_var_with_this(r, alias), ids=False)]
                except Exception as e:  # noqa
                    rt = ['exc', exc_name(e)]
            self.add(op, text, pin, 'ok', [project(r, ids=False)], extra={'alias': alias, 'roundtrip': rt}, desc=str(r))
        except Exception as e:  # noqa
            self.add(op, text, pin, exc_name(e), [], extra={'alias': alias}, desc=repr(e)[:200])

    def event(self, text, pred, alias):
        from hpl.ast.events import HplSimpleEvent
        pin = project(pred, ids=False)
        try:
            ev = HplSimpleEvent.publish('t', alias=alias, predicate=pred)
            self.add('event', text, pin, 'ok', [project(ev, ids=False)],
                     extra={'alias': alias, 'extrefs': sorted(ev.external_references())}, desc=str(ev))
        except Exception as e:  # noqa
            self.add('event', text, pin, exc_name(e), [], extra={'alias': alias}, desc=repr(e)[:200])

    def canonical(self, text, prop):
        from hpl.rewrite import canonical_form
        pin = project(prop, ids=False)
        try:
            r = canonical_form(prop)
            self.add('canonical_form', text, pin, 'ok', [project(x, ids=False) for x in r], rho_node={'cls': 'None'},
                     desc=' ;; '.join(str(x) for x in r))
        except Exception as e:  # noqa
            self.add('canonical_form', text, pin, exc_name(e), [], rho_node={'cls': 'None'}, desc=repr(e)[:200])

    # ---- validation ------------------------------------------------------------------
    def validate(self, canary_maker=None):
        canaries = canary_maker(self.events) if canary_maker else []
        res = tlc.validate_batch('T_Rewrite', self.events + canaries, heap='3g')
        self.rep.add_tlc(res)
        self.rep.add_traces(res['consumed'] - len(canaries))
        self.rep.cov['canaries_rejected'] = len(canaries)
        self.rep.cov['valuations_judged'] = res['stats'].get('judged', 0)
        for k in ('skipU', 'skipO', 'skipR'):
            self.rep.skip(k, res['stats'].get(k, 0))
        self.rep.skip('NoJudgedValuation', len(res['skip']))
        return split_canaries(res, [c['id'] for c in canaries])


def parse_inputs(texts, entries=('expression',), boolean_only=False):
    """[(fam, text, entry, obj)] for accepted texts (boolean_only: expressions must be exactly BOOL)."""
    from hpl.types import DataType
    out = []
    for fam, text in texts:
        for entry in entries:
            o, obj = call_parser(entry, text)
            if o == 'ast':
                if boolean_only and entry == 'expression' and obj.data_type != DataType.BOOL:
                    continue
                out.append((fam, text, entry, obj))
    return out


def corrupt_first(events, pred, mutate, cid, n=5):
    """Up to n canaries of one kind (group cid): the same corruption applied to n different recorded events."""
    out = []
    for ev in events:
        if pred(ev):
            c = copy.deepcopy(ev)
            c['id'] = CANARY_BASE + 100 * cid + len(out)
            mutate(c)
            out.append(c)
            if len(out) >= n:
                break
    return out
