"""Driving the character-level lexer machine (spec/HplLex.tla, MC_Lex.tla): TLC enumerates every input text of a
bounded family and every tokenisation the machine allows (greedy = longest match everywhere; non-greedy = the named
deviation MunchShortOp was used).  The harness turns each text into one parser test:
  must-accept   the greedy tokenisation is a sentence of the bounded language D_L (enumerated by the grammar machine):
                the tree is the one the grammar machine assigns to that sentence, with the concrete names/numbers put in
  must-reject   no tokenisation of the text is a sentence even under the permissive reading (keywords as names)
  unspecified   everything in between (counted, not judged)."""
import hashlib
import json
import os

from harness import grammar, tlc

KEYWORDS = ['not', 'and', 'or', 'implies', 'iff', 'in', 'forall', 'exists', 'to']
BOOLEANS = ['True', 'False']
CONSTANTS = ['PI', 'INF', 'NAN', 'E']
PROP_KEYWORDS = ['globally', 'after', 'until', 'no', 'some', 'causes', 'requires', 'forbids', 'within', 'as', 'or']


def tla_string(c):
    return '"' + c.replace('\\', '\\\\').replace('"', '\\"').replace('\t', '\\t').replace('\n', '\\n').replace('\r', '\\r') + '"'


def tla_chars(text):
    return '<<' + ', '.join(tla_string(c) for c in text) + '>>'


def gen_module(sigma, pieces=None, prefix='', first=None):
    """The character set goes into a generated module: TLC's cfg parser does not unescape \\" and \\\\ in strings."""
    if first is None:
        first = [''] + sorted(set(sigma) | {p[0] for p in (pieces or [])})
    return ('---- MODULE MC_LexGen ----\nEXTENDS MC_Lex\nGenSigma == {%s}\nGenPieces == {%s}\nGenPrefix == %s\nGenFirst == {%s}\n====\n'
            % (', '.join(tla_string(c) for c in sorted(sigma)), ', '.join(tla_chars(p) for p in sorted(pieces or [])), tla_chars(prefix),
               ', '.join(tla_string(c) for c in first)))


def make_cfg(sigma, maxlen, pieces=None, maxpieces=0, given=False, prop=False):
    L = ['SPECIFICATION Spec', 'CHECK_DEADLOCK FALSE',
         'CONSTANT Sigma <- GenSigma',
         'CONSTANT MaxLen = %d' % maxlen,
         'CONSTANT Pieces <- %s' % ('GenPieces' if pieces else 'NoPieces'),
         'CONSTANT Prefix <- GenPrefix',
         'CONSTANT First <- GenFirst',
         'CONSTANT MaxPieces = %d' % maxpieces,
         'CONSTANT Given <- %s' % ('GivenFromFile' if given else 'NoGiven'),
         'CONSTANT Keywords = %s' % grammar._val(KEYWORDS),
         'CONSTANT Booleans = %s' % grammar._val(BOOLEANS),
         'CONSTANT Constants = %s' % grammar._val(CONSTANTS),
         'CONSTANT PropMode = %s' % ('TRUE' if prop else 'FALSE'),
         'CONSTANT PropKeywords = %s' % grammar._val(PROP_KEYWORDS),
         'INVARIANT TypeOK', 'INVARIANT Covering', 'INVARIANT MaximalWords', 'INVARIANT EmitLex']
    return '\n'.join(L) + '\n'


def enumerate_texts(sigma, maxlen, pieces=None, maxpieces=0, cache=True, timeout=3600, given=None, prop=False, prefix=''):
    """{text: {'greedy': toks or None, 'others': [toks...], 'adj': bool}}, tlc stats.
    given: explicit list of input texts (then sigma/maxlen are ignored); prop: the texts are properties."""
    if given is not None:
        return _lex_given(sorted(set(given)), prop, timeout)
    cfg = make_cfg(sigma, maxlen, pieces, maxpieces, prop=prop)
    gen = gen_module(sigma, pieces, prefix)
    h = hashlib.sha256()
    for f in ('HplLex.tla', 'MC_Lex.tla'):
        with open(os.path.join(tlc.SPEC, f), 'rb') as fh:
            h.update(fh.read())
    h.update(cfg.encode())
    h.update(gen.encode())
    cdir = os.path.join(tlc.BUILD, 'lang')
    os.makedirs(cdir, exist_ok=True)
    cpath = os.path.join(cdir, 'lex-' + h.hexdigest()[:20] + '.json')
    if cache and os.path.exists(cpath):
        with open(cpath) as f:
            d = json.load(f)
        return d['texts'], d['res']
    # one TLC process per group of first characters (each with -workers 1, so that its output stays line-clean)
    from concurrent.futures import ThreadPoolExecutor
    firsts = [''] + sorted(set(sigma) | {p[0] for p in (pieces or [])})
    ngroups = min(len(firsts), max(1, tlc.jvm_slots()))
    groups = [firsts[i::ngroups] for i in range(ngroups)]
    texts, r = {}, dict(generated=0, distinct=0, wall=0.0)

    def one(g):
        gm = gen_module(sigma, pieces, prefix, first=g)
        return tlc.run_model('MC_LexGen', cfg_text=cfg, workers=1, timeout=timeout, extra_files={'MC_LexGen.tla': gm}, heap='3g')
    with ThreadPoolExecutor(max_workers=ngroups) as ex:
        for res in ex.map(one, groups):
            texts.update(_collect(res))
            r['generated'] += res['generated']
            r['distinct'] += res['distinct']
            r['wall'] = max(r['wall'], res['wall'])
    if cache:
        with open(cpath, 'w') as f:
            json.dump({'texts': texts, 'res': r}, f)
        grammar._prune_cache(cdir)
    return texts, r


def _lex_given(given, prop, timeout, chunk=6000):
    """The lexer machine on explicit texts (never cached: the texts come from the run).  Sharded over JVMs."""
    from concurrent.futures import ThreadPoolExecutor
    os.makedirs(tlc.BUILD, exist_ok=True)
    cfg = make_cfg([' '], 0, given=True, prop=prop)
    gen = gen_module([' '])
    parts = [given[i:i + chunk] for i in range(0, len(given), chunk)]
    texts, tot = {}, dict(generated=0, distinct=0, wall=0.0)

    def one(idx):
        path = os.path.join(tlc.BUILD, 'lexin_%d_%d.json' % (os.getpid(), idx))
        with open(path, 'w') as f:
            json.dump([list(t) for t in parts[idx]], f)
        try:
            return tlc.run_model('MC_LexGen', cfg_text=cfg, workers=1, timeout=timeout, extra_files={'MC_LexGen.tla': gen},
                                 env={'LEX_INPUTS': path}, heap='3g')
        finally:
            os.unlink(path)
    with ThreadPoolExecutor(max_workers=tlc.jvm_slots()) as ex:
        for res in ex.map(one, range(len(parts))):
            texts.update(_collect(res))
            tot['generated'] += res['generated']
            tot['distinct'] += res['distinct']
            tot['wall'] = max(tot['wall'], res['wall'])
    return texts, tot


def _collect(res):
    if not res['ok']:
        raise tlc.MachineryError('lexer machine failed (a model-level theorem of HplLex is violated or TLC crashed):\n' + res['out'][-3000:])
    texts = {}
    for t in res['tuples']:
        if not t or t[0] not in ('L', 'E'):
            continue
        d = json.loads(t[1])
        e = texts.setdefault(d['text'], {'greedy': None, 'others': [], 'adj': False, 'lexerr': False})
        if t[0] == 'E':
            if d['greedy']:
                e['lexerr'] = True
            continue
        toks = [[x['c'], x['s']] for x in d['toks']]
        if d['greedy']:
            e['greedy'] = toks
            e['adj'] = bool(d['adj'])
        else:
            if toks not in e['others']:
                e['others'].append(toks)
    return texts


def abstract(toks):
    """Concrete tokens -> the alphabet of the bounded language: names -> a (abs directly before "("), numbers -> 1,
    variables -> @v, strings -> $s; keywords, booleans, constants and operators stay."""
    out = []
    for i, (c, s) in enumerate(toks):
        if c == 'NAME':
            out.append('abs' if i + 1 < len(toks) and toks[i + 1][1] == '(' else 'a')
        elif c == 'NUM':
            out.append('1')
        elif c == 'VAR':
            out.append('@v')
        elif c == 'STR':
            out.append('$s')
        else:
            out.append(s)
    return tuple(out)


def abstract_prop(toks):
    """Property level: channels -> t, aliases -> A; keywords and punctuation stay."""
    out = []
    for c, s in toks:
        out.append('t' if c == 'CHAN' else 'A' if c == 'NAME' else s)
    return tuple(out)


class FillError(Exception):
    pass


def fill(ast, toks, spelled_value):
    """Put the concrete names / numbers / variables / strings of `toks` into the tree the grammar machine assigned to
    the abstracted sentence.  The leaves are visited in source order, which is the order of HplGrammar!Tokens."""
    leaves = [(c, s) for c, s in toks if c in ('NAME', 'NUM', 'VAR', 'STR', 'CHAN')]
    it = iter(leaves)

    def nxt(cls):
        try:
            c, s = next(it)
        except StopIteration:
            raise FillError('ran out of leaves')
        if c != cls:
            raise FillError('expected %s got %s %r' % (cls, c, s))
        return s

    def rec(n):
        if isinstance(n, list):
            return [rec(x) for x in n]
        if not isinstance(n, dict):
            return n
        c = n.get('cls')
        d = dict(n)
        if c == 'HplLiteral':
            v = n.get('value')
            if isinstance(v, list) and v and v[0] == 'n' and n.get('token') == '1':
                sp = nxt('NUM')
                d['token'], d['value'] = sp, list(spelled_value(sp))
            elif isinstance(v, list) and v and v[0] == 's' and n.get('token') == '$s':
                sp = nxt('STR')
                d['token'], d['value'] = sp, ['s', sp]
            return d
        if c == 'HplFieldAccess':
            d['message'] = rec(n['message'])
            d['field'] = nxt('NAME')
            return d
        if c == 'HplVarReference':
            d['name'] = nxt('VAR')[1:]
            return d
        if c == 'HplQuantifier':
            d['variable'] = nxt('NAME')
            d['domain'] = rec(n['domain'])
            d['condition'] = rec(n['condition'])
            return d
        if c == 'HplFunctionCall':
            d['function'] = nxt('NAME')
            d['arguments'] = rec(n['arguments'])
            return d
        if c == 'HplSimpleEvent':
            d['name'] = nxt('CHAN')
            if n['alias'][0] == 'some':
                d['alias'] = ['some', nxt('NAME')]
            if n['predicate'].get('cls') != 'HplVacuousTruth':
                raise FillError('event predicates are not supported at the property level')
            return d
        if c == 'HplPattern':
            if n['max_time'][0] != 'inf':
                raise FillError('time bounds are not supported at the property level')
            first, second = ('behaviour', 'trigger') if n['pattern_type'] == 'REQUIREMENT' else ('trigger', 'behaviour')
            d[first] = rec(n[first])
            d[second] = rec(n[second])
            return d
        order = {'HplBinaryOperator': ['operand1', 'operand2'], 'HplUnaryOperator': ['operand'], 'HplSet': ['values'],
                 'HplRange': ['min_value', 'max_value'], 'HplArrayAccess': ['array', 'index'],
                 'HplPredicateExpression': ['expression'], 'HplEventDisjunction': ['event1', 'event2'],
                 'HplScope': ['activator', 'terminator'], 'HplProperty': ['scope', 'pattern']}.get(c)
        if order is None:
            return d
        for k in order:
            d[k] = rec(n[k])
        return d
    out = rec(ast)
    if next(it, None) is not None:
        raise FillError('leaves left over')
    return out
