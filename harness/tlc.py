"""Running TLC (model-checking instances and batch trace validation) and parsing its output.

Everything the checks learn from the specification passes through this module:
  * run_model(...)     : run a model-checking instance (MC_*.tla + cfg), return states/verdict
  * validate_batch(...): shard a list of recorded implementation events over N JVMs running a
                         trace spec (T_*.tla) with -workers 1 and collect the verdict lines
Verdict protocol (printed by the trace specs with PrintT, one tuple per line):
  <<"BAD", id, "Clause">>     event `id` violates clause `Clause`
  <<"SKIP", id, "Class">>     event `id` not judged (skip class)
  <<"STAT", "name", n>>       counter reported at the end of a shard
  <<"DONE", n>>               shard consumed n events (must equal the shard size)
"""
import json
import os
import re
import shutil
import subprocess
import tempfile
import time
from concurrent.futures import ThreadPoolExecutor

ROOT = os.path.dirname(os.path.dirname(os.path.abspath(__file__)))
SPEC = os.path.join(ROOT, 'spec')
BUILD = os.path.join(ROOT, 'build')
JAR = '/opt/veriftools/tla/tla2tools.jar:/opt/veriftools/tla/CommunityModules-deps.jar'
NCPU = int(os.environ.get('VERIF_CPUS', '16'))


def jvm_slots(per_jvm_gb=2.6):
    """How many validation JVMs may run at once: bounded by the cores and by the memory that is available NOW
    (other checks may be running next to this one; an OOM-killed TLC would be a machinery failure)."""
    try:
        with open('/proc/meminfo') as f:
            kb = next(int(l.split()[1]) for l in f if l.startswith('MemAvailable:'))
        return max(2, min(NCPU, int(kb / 1048576.0 / per_jvm_gb)))
    except Exception:  # noqa
        return NCPU


class MachineryError(Exception):
    """TLC crashed / produced output we cannot interpret: exit 2, never a VIOLATION."""


def workdir(tag):
    os.makedirs(BUILD, exist_ok=True)
    d = tempfile.mkdtemp(prefix=tag + '-', dir=BUILD)
    return d


def _java(args, cwd, env=None, timeout=3600, heap='3g'):
    cmd = ['java', '-XX:+UseParallelGC', '-Xmx' + heap, '-Xss64m', '-cp', JAR, 'tlc2.TLC'] + args
    e = dict(os.environ)
    if env:
        e.update(env)
    p = subprocess.run(cmd, cwd=cwd, env=e, stdout=subprocess.PIPE, stderr=subprocess.STDOUT,
                       timeout=timeout, text=True, errors='replace')
    return p.returncode, p.stdout


_STATES = re.compile(r'(\d+) states generated, (\d+) distinct states found')


def parse_states(out):
    m = None
    for m in _STATES.finditer(out):
        pass
    if not m:
        return 0, 0
    return int(m.group(1)), int(m.group(2))


def _parse_value(s, i):
    """Parse one TLA+ value printed by TLC starting at s[i]; returns (python value, next index).
    Tuples/sequences -> list, strings -> str, ints -> int, booleans -> bool; anything else
    (records, sets, functions) -> its source text."""
    n = len(s)
    while i < n and s[i] in ' \t\r\n':
        i += 1
    if s.startswith('<<', i):
        i += 2
        items = []
        while True:
            while i < n and s[i] in ' \t\r\n,':
                i += 1
            if s.startswith('>>', i):
                return items, i + 2
            if i >= n:
                raise ValueError('unterminated tuple')
            v, i = _parse_value(s, i)
            items.append(v)
    if s[i] == '"':
        j = i + 1
        buf = []
        while j < n and s[j] != '"':
            if s[j] == '\\' and j + 1 < n:
                c = s[j + 1]
                buf.append({'n': '\n', 't': '\t', 'r': '\r', 'f': '\f'}.get(c, c))
                j += 2
            else:
                buf.append(s[j])
                j += 1
        return ''.join(buf), j + 1
    # scalar or bracketed structure: read until a top-level delimiter
    j = i
    depth = 0
    while j < n:
        c = s[j]
        if c == '"':
            j += 1
            while j < n and s[j] != '"':
                j += 2 if s[j] == '\\' else 1
            j += 1
            continue
        if s.startswith('<<', j) or c in '{[(':
            depth += 1
            j += 2 if s.startswith('<<', j) else 1
            continue
        if depth > 0 and (s.startswith('>>', j) or c in '}])'):
            depth -= 1
            j += 2 if s.startswith('>>', j) else 1
            continue
        if depth == 0 and (c == ',' or s.startswith('>>', j) or c in '\r\n'):
            break
        j += 1
    tok = s[i:j].strip()
    if re.fullmatch(r'-?\d+', tok):
        return int(tok), j
    if tok == 'TRUE':
        return True, j
    if tok == 'FALSE':
        return False, j
    return tok, j


def parse_tuples(out):
    """Extract every <<"TAG", ...>> value printed by PrintT at the start of a line (TLC may
    pretty-print a long value over several lines)."""
    res = []
    for m in re.finditer(r'(?m)^<<\s*"', out):
        try:
            v, _ = _parse_value(out, m.start())
        except (ValueError, IndexError):
            continue
        if isinstance(v, list) and v and isinstance(v[0], str):
            res.append(v)
    return res


def copy_specs(dst):
    for f in os.listdir(SPEC):
        if f.endswith('.tla') or f.endswith('.cfg'):
            shutil.copy(os.path.join(SPEC, f), os.path.join(dst, f))


def run_model(module, cfg=None, workers=None, env=None, timeout=3600, extra=None, keep=False,
              cfg_text=None, heap='8g', simulate=None, extra_files=None):
    """Run a model-checking instance.  Returns dict(rc, out, generated, distinct, ok, violated)."""
    wd = workdir(module)
    try:
        copy_specs(wd)
        for name, text in (extra_files or {}).items():
            with open(os.path.join(wd, name), 'w') as f:
                f.write(text)
        if cfg_text is not None:
            cfg = module + '_gen.cfg'
            with open(os.path.join(wd, cfg), 'w') as f:
                f.write(cfg_text)
        args = []
        if simulate:
            args += ['-simulate', simulate]
        args += ['-workers', str(workers or NCPU), '-metadir', os.path.join(wd, 'states'),
                 '-noGenerateSpecTE', '-config', cfg or (module + '.cfg')]
        if extra:
            args += extra
        args.append(module + '.tla')
        t0 = time.time()
        rc, out = _java(args, wd, env=env, timeout=timeout, heap=heap)
        if rc in (137, -9, 143, -15):        # killed from outside (machine out of memory): once more
            time.sleep(10)
            shutil.rmtree(os.path.join(wd, 'states'), ignore_errors=True)
            rc, out = _java(args, wd, env=env, timeout=timeout, heap=heap)
        gen, dist = parse_states(out)
        violated = None
        m = re.search(r'Invariant (\S+) is violated', out)
        if m:
            violated = m.group(1)
        m = re.search(r'Action property (\S+) is violated', out)
        if m:
            violated = m.group(1)
        if 'Temporal properties were violated' in out:
            violated = violated or 'temporal'
        ok = (rc == 0) and ('Model checking completed. No error has been found' in out
                            or (simulate is not None and violated is None))
        return dict(rc=rc, out=out, generated=gen, distinct=dist, ok=ok, violated=violated,
                    wall=time.time() - t0, tuples=parse_tuples(out), wd=wd if keep else None)
    finally:
        if not keep:
            shutil.rmtree(wd, ignore_errors=True)


class Packed:
    """A recorded event kept as its JSON text (a tenth of the memory of the nested dicts); only the id and the
    grouping key stay accessible.  Drivers pack events they no longer need to look into."""
    __slots__ = ('id', 'key', 'text')

    def __init__(self, ev, group_key=None):
        self.id = ev['id']
        self.key = ev.get(group_key) if group_key else None
        self.text = json.dumps(ev, separators=(',', ':'))

    def __getitem__(self, k):
        if k == 'id':
            return self.id
        return self.key

    def get(self, k, default=None):
        return self.id if k == 'id' else (self.key if self.key is not None else default)


def pack(ev, group_key=None):
    return ev if isinstance(ev, Packed) else Packed(ev, group_key)


def _run_shard(module, wd, idx, events, consts, timeout, heap):
    path = os.path.join(wd, 'shard%02d.json' % idx)
    with open(path, 'w') as f:
        f.write('[')
        for i, ev in enumerate(events):
            if i:
                f.write(',')
            f.write(ev.text if isinstance(ev, Packed) else json.dumps(ev, separators=(',', ':')))
        f.write(']')
    env = {'TRACE_FILE': path}
    if consts:
        for k, v in consts.items():
            env[k] = str(v)
    args = ['-workers', '1', '-metadir', os.path.join(wd, 'states%02d' % idx),
            '-noGenerateSpecTE', '-config', module + '.cfg', module + '.tla']
    rc, out = _java(args, wd, env=env, timeout=timeout, heap=heap)
    return idx, rc, out


def validate_batch(module, events, shards=None, consts=None, timeout=3600, heap='3g',
                   keep_on_error=True, group_key=None):
    """Validate recorded events against trace spec `module`.

    events: list of JSON-serialisable dicts, each with an integer field "id".
    group_key: if given, events with the same key value stay in one shard, in order
               (used for multi-step session traces).
    Returns dict(bad=[(id, clause)], skip=[(id, cls)], stats={name: n}, generated, distinct,
                 consumed, wall)
    """
    if not events:
        return dict(bad=[], skip=[], stats={}, generated=0, distinct=0, consumed=0, wall=0.0)
    shards = shards or NCPU
    shards = max(1, min(shards, len(events)))
    parts = [[] for _ in range(shards)]
    if group_key is None:
        for i, ev in enumerate(events):
            parts[i % shards].append(ev)
    else:
        groups = {}
        order = []
        for ev in events:
            k = ev[group_key]
            if k not in groups:
                groups[k] = []
                order.append(k)
            groups[k].append(ev)
        sizes = [0] * shards
        for k in order:
            j = sizes.index(min(sizes))
            parts[j].extend(groups[k])
            sizes[j] += len(groups[k])
        parts = [p for p in parts if p]
        shards = len(parts)
    wd = workdir(module)
    copy_specs(wd)
    t0 = time.time()
    bad, skip, stats = [], [], {}
    gen = dist = consumed = 0
    failed = None
    with ThreadPoolExecutor(max_workers=jvm_slots()) as ex:
        futs = [ex.submit(_run_shard, module, wd, i, parts[i], consts, timeout, heap)
                for i in range(shards)]
        for fu in futs:
            idx, rc, out = fu.result()
            if rc in (137, -9, 143, -15) or (rc != 0 and 'OutOfMemoryError' in out):
                # the JVM was killed from outside (machine out of memory): once more, alone, when the others are done
                time.sleep(5)
                idx, rc, out = _run_shard(module, wd, idx, parts[idx], consts, timeout, heap)
            g, d = parse_states(out)
            gen += g
            dist += d
            done = None
            for t in parse_tuples(out):
                if not t:
                    continue
                if t[0] == 'BAD':
                    bad.append((t[1], t[2]))
                elif t[0] == 'SKIP':
                    skip.append((t[1], t[2]))
                elif t[0] == 'STAT':
                    stats[t[1]] = stats.get(t[1], 0) + t[2]
                elif t[0] == 'DONE':
                    done = t[1]
            if done is not None:
                consumed += done
            if rc != 0 or done != len(parts[idx]) or 'Error:' in out:
                failed = (idx, rc, out)
    wall = time.time() - t0
    if failed:
        idx, rc, out = failed
        log = os.path.join(wd, 'shard%02d.out' % idx)
        with open(log, 'w') as f:
            f.write(out)
        tail = '\n'.join(out.splitlines()[-40:])
        raise MachineryError('trace spec %s shard %d failed (rc=%s); log %s\n%s'
                             % (module, idx, rc, log, tail))
    shutil.rmtree(wd, ignore_errors=True)
    return dict(bad=bad, skip=skip, stats=stats, generated=gen, distinct=dist,
                consumed=consumed, wall=wall)


def sany(module):
    wd = workdir('sany')
    try:
        copy_specs(wd)
        p = subprocess.run(['java', '-cp', JAR, 'tla2sany.SANY', module + '.tla'], cwd=wd,
                           stdout=subprocess.PIPE, stderr=subprocess.STDOUT, text=True)
        ok = p.returncode == 0 and 'Semantic errors' not in p.stdout and 'rror' not in p.stdout.replace('errors: 0', '')
        return ok, p.stdout
    finally:
        shutil.rmtree(wd, ignore_errors=True)
