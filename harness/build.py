"""Building real hpl objects through the constructor API from a stripped expected AST (the JSON that
HplGrammar!Ast produces).  Used for the 'built through the API' and 'copied with changed parts'
ways of bringing a property into being (C02) and for API-only shapes (C11)."""


def expr(n):
    from hpl.ast import expressions as E
    c = n['cls']
    if c == 'HplLiteral':
        v = n['value']
        if v[0] == 'b':
            return E.HplLiteral(n.get('token', str(v[1])), v[1])
        if v[0] == 's':
            return E.HplLiteral(n.get('token', v[1]), v[1])
        if v[0] == 'n':
            val = v[1] if v[2] == 1 else v[1] / v[2]
            return E.HplLiteral(n.get('token', str(val)), val)
        if v[0] == 'inf':
            return E.HplLiteral('INF', float('inf') * v[1])
        if v[0] == 'nan':
            return E.HplLiteral('NAN', float('nan'))
        return E.HplLiteral(n.get('token', v[1]), float(v[1]))
    if c == 'HplThisMessage':
        return E.HplThisMessage()
    if c == 'HplVarReference':
        return E.HplVarReference('@' + n['name'])
    if c == 'HplFieldAccess':
        return E.HplFieldAccess(expr(n['message']), n['field'])
    if c == 'HplArrayAccess':
        return E.HplArrayAccess(expr(n['array']), expr(n['index']))
    if c == 'HplSet':
        return E.HplSet(tuple(expr(x) for x in n['values']))
    if c == 'HplRange':
        return E.HplRange(expr(n['min_value']), expr(n['max_value']), exclude_min=n['exclude_min'], exclude_max=n['exclude_max'])
    if c == 'HplQuantifier':
        return E.HplQuantifier(n['quantifier'], n['variable'], expr(n['domain']), expr(n['condition']))
    if c == 'HplUnaryOperator':
        return E.HplUnaryOperator(n['operator'], expr(n['operand']))
    if c == 'HplBinaryOperator':
        return E.HplBinaryOperator(n['operator'], expr(n['operand1']), expr(n['operand2']))
    if c == 'HplFunctionCall':
        return E.HplFunctionCall(n['function'], tuple(expr(x) for x in n['arguments']))
    raise ValueError(c)


def pred(n):
    from hpl.ast import predicates as P
    c = n['cls']
    if c == 'HplVacuousTruth':
        return P.HplVacuousTruth()
    if c == 'HplContradiction':
        return P.HplContradiction()
    return P.HplPredicateExpression(expr(n['expression']))


def event(n):
    from hpl.ast import events as V
    if n['cls'] == 'HplEventDisjunction':
        return V.HplEventDisjunction(event(n['event1']), event(n['event2']))
    alias = n['alias'][1] if n['alias'][0] == 'some' else None
    return V.HplSimpleEvent.publish(n['name'], predicate=pred(n['predicate']), alias=alias)


def scope(n):
    from hpl.ast.properties import HplScope
    t = n['scope_type']
    if t == 'GLOBAL':
        return HplScope.globally()
    if t == 'AFTER':
        return HplScope.after(event(n['activator']))
    if t == 'UNTIL':
        return HplScope.until(event(n['terminator']))
    return HplScope.after_until(event(n['activator']), event(n['terminator']))


def tval(v):
    if v[0] == 'inf':
        return float('inf')
    return v[1] / v[2]


def pattern(n):
    from hpl.ast.properties import HplPattern
    t = n['pattern_type']
    mx = tval(n['max_time'])
    b = event(n['behaviour'])
    if t == 'EXISTENCE':
        return HplPattern.existence(b, max_time=mx)
    if t == 'ABSENCE':
        return HplPattern.absence(b, max_time=mx)
    a = event(n['trigger'])
    if t == 'RESPONSE':
        return HplPattern.response(a, b, max_time=mx)
    if t == 'PREVENTION':
        return HplPattern.prevention(a, b, max_time=mx)
    return HplPattern.requirement(b, a, max_time=mx)


def prop(n):
    from hpl.ast.properties import HplProperty
    return HplProperty(scope(n['scope']), pattern(n['pattern']))


def prop_by_copy(n, base):
    """Reach the shape from a valid property by copy-with-changes."""
    p = base.but(scope=scope(n['scope']))
    return p.but(pattern=pattern(n['pattern']))


# ---- 'derived' way (C02): every predicate is reached by the substitution API from a predicate that was first used
# ---- (and therefore sanity-checked) inside another, valid, property ------------------------------------------------
def _rename_free(n, m, bound=()):
    if isinstance(n, list):
        return [_rename_free(x, m, bound) for x in n]
    if not isinstance(n, dict):
        return n
    c = n.get('cls')
    if c == 'HplVarReference':
        if n['name'] in m and n['name'] not in bound:
            return dict(n, name=m[n['name']])
        return n
    if c == 'HplQuantifier':
        b2 = tuple(bound) + (n['variable'],)
        return dict(n, domain=_rename_free(n['domain'], m, b2), condition=_rename_free(n['condition'], m, b2))
    return {k: _rename_free(v, m, bound) for k, v in n.items()}


def pred_derived(n):
    from hpl.ast import expressions as E
    from hpl.ast import events as V
    from hpl.ast.properties import HplPattern, HplProperty, HplScope
    if n['cls'] != 'HplPredicateExpression':
        return pred(n)
    try:
        refs = sorted(pred(n).external_references())
    except Exception:  # noqa
        return pred(n)
    if not 1 <= len(refs) <= 2:
        return pred(n)
    fresh = ['Qx1', 'Qx2']
    m = {r: fresh[i] for i, r in enumerate(refs)}
    try:
        p0 = pred(_rename_free(n, m))
        # the warm-up property binds Qx1 (activator) and Qx2 (trigger) before the behaviour that carries p0
        HplProperty(HplScope.after(V.HplSimpleEvent.publish('w0', alias='Qx1')),
                    HplPattern.response(V.HplSimpleEvent.publish('w1', alias='Qx2'), V.HplSimpleEvent.publish('t9', predicate=p0)))
        p = p0
        for r in refs:
            p = p.replace_var_reference(m[r], E.HplVarReference('@' + r))
    except Exception:  # noqa
        return pred(n)
    return p


def event_derived(n):
    from hpl.ast import events as V
    if n['cls'] == 'HplEventDisjunction':
        return V.HplEventDisjunction(event_derived(n['event1']), event_derived(n['event2']))
    alias = n['alias'][1] if n['alias'][0] == 'some' else None
    return V.HplSimpleEvent.publish(n['name'], predicate=pred_derived(n['predicate']), alias=alias)


def prop_derived(n):
    """Like prop(), with every predicate obtained by pred_derived."""
    global event
    saved = event
    event = event_derived
    try:
        return prop(n)
    finally:
        event = saved


# ---- properties whose disjunctions are DERIVED (copy-with-changes) from disjunctions that were already used ----------
def derive_disjunctions(p, fresh_names):
    """A property like p in which every event disjunction is replaced by one obtained from it through but(): its first
    alternative moves to a channel that p does not mention yet.  Returns None when p has no disjunction or no name is free.
    p's own disjunctions are queried first, so that anything they remember about themselves is in place."""
    used = set()
    for e in (p.scope.activator, p.scope.terminator, p.pattern.trigger, p.pattern.behaviour):
        if e is not None:
            used.update(s.name for s in e.simple_events())
    free = [n for n in fresh_names if n not in used]
    changed = [False]

    def dv(e):
        if e is None or not e.is_event_disjunction or not free:
            return e
        list(e.simple_events())
        e.aliases()
        str(e)

        def first(d):
            if d.event1.is_event_disjunction:
                return d.but(event1=first(d.event1))
            return d.but(event1=d.event1.but(name=free.pop(0)))
        changed[0] = True
        return first(e)
    sc = p.scope
    if sc.activator is not None or sc.terminator is not None:
        kw = {}
        if sc.activator is not None:
            kw['activator'] = dv(sc.activator)
        if sc.terminator is not None:
            kw['terminator'] = dv(sc.terminator)
        sc = sc.but(**kw)
    kw = {'behaviour': dv(p.pattern.behaviour)}
    if p.pattern.trigger is not None:
        kw['trigger'] = dv(p.pattern.trigger)
    q = p.but(scope=sc, pattern=p.pattern.but(**kw))
    return q if changed[0] else None
