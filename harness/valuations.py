"""Valuation grids for a projected AST (DESIGN 3.4): which roots / paths / inferred types an input
mentions, and a finite list of environments rho = {"this": value, "vars": {name: value}} over small
values (numbers -1,0,1,2; booleans; strings a,b; arrays of length 0,1,2; nested messages).

The valuations are PROPOSED here and EVALUATED by the spec (HplEval).  A badly built valuation can
only make the input undefined under it (no obligation, counted), never produce a false alarm."""
import itertools

NUMS = [['n', 0, 1], ['n', 1, 1], ['n', -1, 1], ['n', 2, 1], ['n', -1, 2], ['n', 1, 2]]   # 0 1 -1 2 -0.5 0.5
BOOLS = [['b', True], ['b', False]]
STRS = [['s', 'a'], ['s', 'b']]


class Shape:
    def __init__(self):
        self.fields = {}
        self.elem = None
        self.types = None   # set of base names inferred at this path (intersection over uses)
        self.idx = 0        # largest literal index + 1 used on this path

    def note(self, dt):
        s = set(dt)
        self.types = s if self.types is None else (self.types & s or self.types)


def _shape_of(node, roots, bound):
    """Return the Shape addressed by accessor expression `node` (creating it), or None."""
    c = node['cls']
    if c == 'HplThisMessage':
        return roots.setdefault(('this',), Shape())
    if c == 'HplVarReference':
        if node['name'] in bound:
            return None
        return roots.setdefault(('var', node['name']), Shape())
    if c == 'HplFieldAccess':
        base = _shape_of(node['message'], roots, bound)
        if base is None:
            return None
        return base.fields.setdefault(node['field'], Shape())
    if c == 'HplArrayAccess':
        base = _shape_of(node['array'], roots, bound)
        if base is None:
            return None
        if base.elem is None:
            base.elem = Shape()
        i = node['index']
        if i['cls'] == 'HplLiteral' and i['value'][0] == 'n' and i['value'][2] == 1 and 0 <= i['value'][1] < 3:
            base.idx = max(base.idx, i['value'][1] + 1)
        return base.elem
    return None


def collect(node, roots, bound=frozenset(), elem_hint=None):
    """Walk a projected AST and record every reference path with its inferred type set."""
    if isinstance(node, list):
        for x in node:
            collect(x, roots, bound, elem_hint)
        return
    if not isinstance(node, dict) or 'cls' not in node:
        return
    c = node['cls']
    if c in ('HplFieldAccess', 'HplArrayAccess', 'HplVarReference', 'HplThisMessage'):
        sh = _shape_of(node, roots, bound)
        if sh is not None and 'dt' in node:
            sh.note(node['dt'])
    if c == 'HplQuantifier':
        collect(node['domain'], roots, bound, elem_hint)
        # element type of a reference domain: the type at which the bound variable is used
        vt = set()
        _var_types(node['condition'], node['variable'], vt)
        dsh = _shape_of(node['domain'], roots, bound) if node['domain']['cls'] in ('HplFieldAccess', 'HplArrayAccess', 'HplVarReference') else None
        if dsh is not None:
            if dsh.elem is None:
                dsh.elem = Shape()
            if vt:
                dsh.elem.note(sorted(vt))
        collect(node['condition'], roots, bound | {node['variable']}, elem_hint)
        return
    if c == 'HplBinaryOperator' and node['operator'] == 'in':
        r = node['operand2']
        if r['cls'] in ('HplFieldAccess', 'HplArrayAccess', 'HplVarReference'):
            collect(r, roots, bound)
            sh = _shape_of(r, roots, bound)
            if sh is not None:
                if sh.elem is None:
                    sh.elem = Shape()
                sh.elem.note(node['operand1'].get('dt', ['NUMBER']))
            collect(node['operand1'], roots, bound)
            return
    for k, v in node.items():
        if k in ('dt', 'metadata', 'value'):
            continue
        if isinstance(v, (dict, list)):
            collect(v, roots, bound, elem_hint)


def _var_types(node, name, acc):
    if isinstance(node, list):
        for x in node:
            _var_types(x, name, acc)
    elif isinstance(node, dict):
        if node.get('cls') == 'HplVarReference' and node.get('name') == name:
            acc.update(node.get('dt', []))
        for v in node.values():
            if isinstance(v, (dict, list)):
                _var_types(v, name, acc)


def _leaf_choices(sh):
    """Candidate values for a path, by inferred type (first listed type family wins)."""
    t = sh.types or {'NUMBER'}
    if sh.fields:
        return None  # message: built structurally
    if sh.elem is not None or t <= {'ARRAY'} or (t & {'ARRAY'} and not t & {'NUMBER', 'BOOL', 'STRING'}):
        return 'array'
    if 'NUMBER' in t:
        return NUMS
    if 'BOOL' in t:
        return BOOLS
    if 'STRING' in t:
        return STRS
    if 'MESSAGE' in t:
        return [['msg', {}]]
    return NUMS


def _slots(sh, path, out):
    """Flatten a shape into independent choice slots [(path, choices)]."""
    if sh.fields:
        for f in sorted(sh.fields):
            _slots(sh.fields[f], path + (('f', f),), out)
        return
    ch = _leaf_choices(sh)
    if ch == 'array':
        el = sh.elem or Shape()
        if el.fields:
            # array of messages: lengths 0,1,2 with element slots per position
            out.append((path + (('len',),), [0, 1, 2] if sh.idx <= 1 else [sh.idx, 0]))
            for i in range(max(2, sh.idx)):
                _slots(el, path + (('i', i),), out)
        else:
            ech = _leaf_choices(el)
            if ech in (None, 'array'):
                ech = NUMS
            n = max(sh.idx, 0)
            arrs = [['arr', []], ['arr', [ech[0]]], ['arr', [ech[1 % len(ech)], ech[-1]]],
                    ['arr', [ech[-1], ech[0], ech[1 % len(ech)]]]]
            if n:
                arrs = [a for a in arrs if len(a[1]) >= n] + [['arr', []]]
            out.append((path, arrs))
    else:
        out.append((path, ch))


def _build(sh, path, assign):
    if sh.fields:
        return ['msg', {f: _build(sh.fields[f], path + (('f', f),), assign) for f in sorted(sh.fields)}]
    if (path + (('len',),)) in assign:
        n = assign[path + (('len',),)]
        el = sh.elem
        return ['arr', [_build(el, path + (('i', i),), assign) for i in range(n)]]
    return assign[path]


def valuations(node, limit=48, rnd=None):
    """List of rho dicts for a projected AST."""
    roots = {}
    collect(node, roots)
    slots = []
    for key in sorted(roots):
        _slots(roots[key], (key,), slots)
    if not slots:
        return [{'this': ['msg', {}], 'vars': {}}]
    total = 1
    for _, ch in slots:
        total *= len(ch)
    combos = []
    if total <= limit:
        combos = list(itertools.product(*[range(len(ch)) for _, ch in slots]))
    else:
        # always: all-first, all-second, all-last; then seeded random combinations
        for k in (0, 1, -1):
            combos.append(tuple((k % len(ch)) for _, ch in slots))
        seen = set(combos)
        tries = 0
        while len(combos) < limit and tries < limit * 20:
            tries += 1
            c = tuple(rnd.randrange(len(ch)) for _, ch in slots)
            if c not in seen:
                seen.add(c)
                combos.append(c)
    res = []
    for c in combos:
        assign = {slots[i][0]: slots[i][1][c[i]] for i in range(len(slots))}
        rho = {'this': ['msg', {}], 'vars': {}}
        for key in sorted(roots):
            v = _build(roots[key], (key,), assign)
            if key == ('this',):
                rho['this'] = v
            else:
                rho['vars'][key[1]] = v
        res.append(rho)
    return res
