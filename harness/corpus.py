"""Corpus of real ASTs: sentences of the grammar machine parsed by the real parser."""
from harness import grammar, render
from harness.common import rng, tier
from harness.drive import call_parser

ENTRY = {0: 'expression', 26: 'predicate', 30: 'property'}

_CACHE = {}


def languages(thorough):
    L = []
    L.append(('expr_ops', dict(Start=0, MaxTok=6 if thorough else 5, Bools=['True'], Strs=[], Consts=[], Fields=[],
                               CallFuns=[], SetLens=[], RangeL=[], RangeR=[], Quants=[], Vars=[])))
    L.append(('expr_atoms', dict(Start=0, MaxTok=6 if thorough else 5, IfOps=['implies'], OrOps=[], AndOps=['and'],
                                 RelOps=['=', 'in'], AddOps=['-'], MulOps=[], PowOps=['**'], Nums=['1', '1.5'],
                                 Consts=['PI', 'INF'], Parens=False)))
    # explicit parentheses around same-level operands: both nestings of every pair of binary operators
    L.append(('expr_paren', dict(Start=0, MaxTok=7, IfOps=['iff'], OrOps=['or'], AndOps=['and'], NotOps=[], Quants=[],
                                 RelOps=[], AddOps=['+', '-'], MulOps=['*'], PowOps=['**'], NegOps=[], Parens=True, Bools=[], Strs=[],
                                 Nums=[], Consts=[], CallFuns=[], SetLens=[], RangeL=[], RangeR=[], Names=['a', 'b'], Vars=[], Fields=[], QVars=[])))
    L.append(('pred', dict(Start=26, MaxTok=9 if thorough else 8, Quants=['forall'], IfOps=['iff'], OrOps=['or'], AndOps=[],
                           RelOps=['<'], AddOps=['+'], MulOps=['/'], PowOps=[], NegOps=[], Strs=[], Consts=[],
                           RangeL=['['], RangeR=[']!'], CallFuns=['len'], SetLens=[1], Fields=[])))
    L.append(('prop', dict(Start=30, MaxTok=11 if thorough else 10, PredPool='SmallPool', Channels=['t', 'u'],
                           Times=['100', '0', '700'] if not thorough else ['100', '0', '700', '9', '350'], DisjLens=[2] if not thorough else [2, 3])))
    # event disjunctions of four and five alternatives (nothing else fits into the token bound)
    wide = dict(Start=30, ScopeKinds=['globally'], PatternKinds=['no'], Channels=['t', 'u', 'w', 'v', 'z'], AliasNames=[], PredPool='SmallPool', Times=[], Units=[])
    L.append(('prop_disj4', dict(wide, MaxTok=12, DisjLens=[4])))
    L.append(('prop_disj5', dict(wide, MaxTok=14, DisjLens=[5], Channels=['t', 'u', 'w', 'v', 'z'] if thorough else ['t', 'u', 'w', 'v'] + ['z'])))
    # references to the event's own alias in every kind of position of its predicate (pool AliasPool of MC_Grammar)
    own = dict(Start=30, MaxTok=70, Channels=['t'], AliasNames=['A'], PredPool='AliasPool', Times=[], Units=[], DisjLens=[])
    L.append(('prop_ownalias', dict(own, ScopeKinds=['globally'], PatternKinds=['no', 'causes'])))
    L.append(('prop_ownalias_after', dict(own, ScopeKinds=['after'], PatternKinds=['some'], Channels=['t'], AliasNames=['A', 'B'] if thorough else ['A'])))
    return L


def simulated(thorough):
    """Random deep derivations of the same machine (tlc -simulate, seeded by VERIF_SEED)."""
    n = 'num=%d' % (3000 if thorough else 400)
    return [
        ('expr_sim', dict(Start=0, MaxTok=24, Names=['a', 'b'], Fields=['f', 'g'], Nums=['1', '2'], CallFuns=['abs', 'len'],
                          Consts=['PI', 'E', 'INF'], Vars=['@v', '@w'], SetLens=[1, 2, 3]), n),
        ('pred_sim', dict(Start=26, MaxTok=26, Names=['a', 'b'], Fields=['f'], Nums=['1', '0'], CallFuns=['abs', 'sum'], SetLens=[1, 2]), n),
        ('prop_sim', dict(Start=30, MaxTok=34, PredPool=None, Channels=['t', 'u', 'w'], AliasNames=['A', 'B'], Times=['100', '0', '3', '13', '700'],
                          DisjLens=[2, 3], Names=['a'], Fields=['f'], Consts=[], Strs=[], CallFuns=['abs'], SetLens=[1],
                          IfOps=['implies'], MulOps=['*'], PowOps=[], RangeL=['['], RangeR=[']', ']!']), n),
    ]


def sentences(thorough=None):
    """[(lang name, entry, sentence)] + accumulated TLC stats."""
    thorough = (tier() == 'thorough') if thorough is None else thorough
    key = ('sent', thorough)
    if key not in _CACHE:
        out = []
        stats = {'generated': 0, 'distinct': 0}
        for name, params in languages(thorough):
            sents, r = grammar.enumerate_language(params)
            stats['generated'] += r['generated']
            stats['distinct'] += r['distinct']
            for s in sents:
                out.append((name, ENTRY[params['Start']], s))
        from harness.common import seed
        for name, params, sim in simulated(thorough):
            sents, r = grammar.enumerate_language(params, simulate=sim, seed=seed() + 1)
            stats['simulated'] = stats.get('simulated', 0) + len(sents)
            for s in sents:
                out.append((name, ENTRY[params['Start']], s))
        _CACHE[key] = (out, stats)
    return _CACHE[key]


def accepted(thorough=None, limit=None, salt='corpus'):
    """Real ASTs: [(text, entry, obj)] for every sentence the real parser accepts."""
    thorough = (tier() == 'thorough') if thorough is None else thorough
    sents, stats = sentences(thorough)
    res = []
    for name, entry, s in sents:
        toks, _ = render.substitute(s, lits=grammar.STD_LITS)
        text = render.layout(toks, 0)
        out, obj = call_parser(entry, text)
        if out == 'ast':
            res.append((text, entry, obj))
    if limit and len(res) > limit:
        r = rng(salt)
        res = r.sample(res, limit)
    return res, stats


def accepted_families(fams, cap=None, salt='fam'):
    """Real ASTs of the typed families of HplTypedGen: [(text, entry, obj)], stats."""
    r = rng(salt)
    res = []
    stats = {'generated': 0, 'distinct': 0}
    for fam in fams:
        sents, st = grammar.enumerate_family(fam)
        stats['generated'] += st['generated']
        stats['distinct'] += st['distinct']
        if cap and len(sents) > cap:
            sents = r.sample(sents, cap)
        for s in sents:
            toks, _ = render.substitute(s, lits=grammar.STD_LITS)
            text = render.layout(toks, 0)
            for entry in ('expression', 'condition'):     # the predicate-level checks only run for `condition`
                out, obj = call_parser(entry, text)
                if out == 'ast':
                    res.append((text, entry, obj))
    return res, stats
