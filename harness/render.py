"""Token sequences -> text, with layout variants and placeholder substitution (DESIGN 3.3)."""
import re

MULTI = ['!=', '<=', '>=', '**', '![', ']!', '//']
WORD = re.compile(r'[A-Za-z0-9_@."/~]')


def must_separate(t1, t2):
    """White space is mandatory between t1 and t2 (conservative)."""
    a, b = t1[-1], t2[0]
    if WORD.match(a) and WORD.match(b):
        return True
    for m in MULTI:
        if a == m[0] and b == m[1]:
            return True
    if a in '-+' and b in '-+0123456789.':
        return True
    if a in '0123456789' and b in '-+':
        return True
    return False


def layout(toks, mode=0, rnd=None):
    if not toks:
        return ''
    if mode == 0:
        return ' '.join(toks)
    out = [toks[0]]
    for i in range(1, len(toks)):
        if mode == 2:
            sep = ' ' if must_separate(toks[i - 1], toks[i]) else ''
        else:
            sep = rnd.choice([' ', '  ', '\n', '\t', ' \n ', '\r\n', '   '])
        out.append(sep)
        out.append(toks[i])
    if mode == 1:
        return rnd.choice(['', ' ', '\n']) + ''.join(out) + rnd.choice(['', ' ', '\n'])
    return ''.join(out)


def substitute(sent, names=None, chans=None, lits=None):
    """Replace placeholder tokens consistently in the token list and in the expected AST.
    names: CNAME -> CNAME (own fields, fields, quantified variables, aliases; '@x' follows 'x')
    chans: channel -> channel ; lits: literal token -> (new token, literal value tuple).
    The three alphabets must be pairwise disjoint."""
    names = names or {}
    chans = chans or {}
    lits = lits or {}

    def tok(t):
        if t in lits:
            return lits[t][0]
        if t.startswith('@'):
            return '@' + names.get(t[1:], t[1:])
        if t in chans:
            return chans[t]
        return names.get(t, t)

    def rec(n):
        if isinstance(n, list):
            return [rec(x) for x in n]
        if not isinstance(n, dict):
            return n
        d = {k: rec(v) for k, v in n.items()}
        c = d.get('cls')
        if c == 'HplFieldAccess':
            d['field'] = names.get(d['field'], d['field'])
        elif c == 'HplVarReference':
            nm = d['name'][1:] if d['name'].startswith('@') else d['name']
            d['name'] = names.get(nm, nm)
        elif c == 'HplQuantifier':
            d['variable'] = names.get(d['variable'], d['variable'])
        elif c == 'HplSimpleEvent':
            d['name'] = chans.get(d['name'], d['name'])
            if d['alias'][0] == 'some':
                d['alias'] = ['some', names.get(d['alias'][1], d['alias'][1])]
        elif c == 'HplLiteral':
            if d.get('token') in lits:
                d['token'], d['value'] = lits[d['token']][0], list(lits[d['token']][1])
        return d
    return [tok(t) for t in sent['toks']], rec(sent['ast'])
