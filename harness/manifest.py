"""Regenerates MANIFEST.json from the table below (keeps it valid at all times)."""
import json
import os

ROOT = os.path.dirname(os.path.dirname(os.path.abspath(__file__)))

CHECKS = {
    'C20': dict(
        text='Exhaustive: the lattice laws are TLC invariants over all pairs (quick) / triples (thorough) of the 128 type sets, and every one of the 128x128 pairs is driven through the real DataType.cast/can_be/union and validated against HplTypes by the trace spec, which also proves the driven set is the whole product. The thorough tier additionally has TLAPS prove the laws for type sets over any set of base types (HplTypesLaws.tla, 10 obligations).',
        note='Trusts TLC, the Json module and the bit-level projection of DataType values; union is checked on all pairs and sampled triples/0-ary/4-ary.',
        technique='TLC model checking of HplTypes (MC_Types) + exhaustive trace validation (T_C20)',
        design='5/C20'),
}

CHECKS.update({
    'C01': dict(
        text='The grammar derivation machine (HplGrammar.tla) is explored exhaustively by TLC up to a token bound for expression, predicate and property start symbols; every complete derivation (one implementation test per terminal state) is rendered in several layouts, parsed by the packaged and by the source-built parser, and the trace spec T_C01 compares the observed tree with the tree the grammar assigns (Ast(cst)) and requires all layouts/parsers of one sentence to agree; token mutants outside the permissive bounded language must be rejected. At the character level the lexer machine HplLex.tla (actions SkipWS, Munch = longest match, and the named deviation MunchShortOp) is explored exhaustively over every text of bounded length over four small character sets (words/keywords/numbers, operators, references/calls, string literals); TLC checks its model-level theorems (tokens cover the text, words are maximal) and every text becomes a parser test: must-accept with the tree of its greedy tokenisation, must-reject when no admitted tokenisation is a sentence even with keywords read as names, unspecified otherwise.',
        note='Bounded: token length and alphabet of the enumerated languages (listed in the evidence); trusts the grammar model (one production per Lark rule alternative, cross-validated against Lark on the accept side).',
        technique='TLC state-graph enumeration of the grammar machine and of the lexer machine + trace validation (T_C01)', design='5/C01'),
    'C03': dict(
        text='Every AST obtained from the parser on the enumerated languages and from every rewriting function (depth <= 2 compositions) is projected field by field and TLC evaluates the well-typedness invariant HplAst!WT clause by clause on every node; the declared operator/function tables of the implementation are compared with HplTypes.',
        note='Bounded by the enumerated languages; WT uses the weak reading (compatibility) for bound-variable element types.',
        technique='trace validation of recorded ASTs against the WT invariant (T_C03) over TLC-generated inputs', design='5/C03'),
    'C15': dict(
        text='For every node of every AST of the enumerated corpus the answers of external_references, contains_reference, contains_self_reference, contains_definition, aliases, the own-field check and the iterate() order are recorded and TLC recomputes each with the HplAst operators on the projected tree (projection walks attrs fields, not children()).',
        note='Bounded by the enumerated languages; the sibling order of the two events of a pattern is accepted in either order.',
        technique='trace validation of recorded query answers against HplAst (T_C15) over TLC-generated inputs', design='5/C15'),
    'C08': dict(
        text='TLC enumerates typed expression families (HplTypedGen: all depth-2 arithmetic/boolean terms, comparisons of depth-1 terms, every built-in function on every argument shape, sets, ranges, quantifiers); each is parsed and simplified by the real code and the trace spec T_C08 evaluates input and output with the exact-rational denotational semantics HplEval on a grid of valuations (strict input, Kleene output), checks kind/type preservation, HplAst!WT of the output, the vacuous-predicate rule, and that an exception is allowed only when the spec finds an identically-zero divisor or an undefined constant sub-term. A second pass applies simplify to copies derived through the public copy/substitution API from objects that simplify was already applied to, and to the originals again (every (input, output) pair is judged on its own).',
        note='Semantics of HplEval are a modelling decision (DESIGN section 10); float folding and transcendental functions are outside the exact model and counted as skipped; valuation grid of small values.',
        technique='trace validation against denotational semantics in TLA+ (HplEval, T_C08) over TLC-enumerated typed families', design='5/C08'),
    'C09': dict(
        text='split_and is run on TLC-enumerated boolean families (propositional structure with aliases, quantifiers over arrays/sets/ranges incl. empty domains); T_Rewrite checks with HplEval that the Kleene conjunction of the returned parts equals the input on every valuation where the input is defined, that every part is exactly BOOL, well-typed and of indivisible shape, and that ValueError occurs only with a literal False in an input that is true on no valuation. A second pass splits copies derived (but(), substitutions) from objects that were already split, and the originals again.',
        note='Bounded families and valuation grid; semantics per HplEval.', technique='trace validation against HplEval (T_Rewrite) over TLC-enumerated typed families', design='5/C09'),
    'C10': dict(
        text='refactor_reference is run with present, decoy and absent aliases on TLC-enumerated boolean families; T_Rewrite checks f1 /\\ f2 == f on all valuations (HplEval), f1 free of the alias, no bound variable escaping (ExtRefs), and the unchanged-with-True result when the alias is absent. A second pass refactors copies derived (but(), substitutions) from objects that were already refactored on the same aliases, and the originals again.',
        note='Bounded families and valuation grid; "f itself" is accepted as the same object or an equal value.', technique='trace validation against HplEval/HplAst (T_Rewrite) over TLC-enumerated typed families', design='5/C10'),
    'C13': dict(
        text='negate, join (with vacuous operands), both this/var replacements (with round trip) and aliased event construction are run on TLC-enumerated families that place a this-rooted and an alias-rooted reference in every child slot; T_Rewrite checks negation/conjunction semantics with HplEval, exact structural substitution (HplAst!Subst) and meaning under the corresponding binding, identity/annihilator laws, and that an event never lists its own alias as external. A second pass repeats every operation on copies derived from objects that were already used, and on the originals again.',
        note='Bounded families and valuation grid.', technique='trace validation against HplEval/HplAst (T_Rewrite) over TLC-enumerated typed families', design='5/C13'),
    'C14': dict(
        text='Every rewriting function is called on the typed families, on API-built multi-argument function calls and on enumerated properties; T_Rewrite accepts an exception only where the statement allows it (simplify: identically-zero divisor / undefined constant found by HplEval; split_and: literal False and never true; replacements on predicates: TypeError iff two references of disjoint types coincide) and checks the documented result kind.',
        note='Bounded families; one recorded finding (known_findings.json).', technique='trace validation of outcome classes and result kinds (T_Rewrite) over TLC-enumerated inputs', design='5/C14'),
    'C16': dict(
        text='The session machine HplSession.tla is explored by TLC to enumerate every API call schedule (all of length <= 2 over 34 calls (queries, copies, rewrites, and accepted / rejected parses of other texts in between) x 7 argument selectors, length 3 over the mutating calls); each schedule is replayed on freshly parsed type-open seed ASTs and after every call the deep snapshot (structure, stored types, metadata, object ids, hashes) of every handle allocated so far is recorded; the trace spec T_C16 keeps the heap as its state and checks at every step that no earlier snapshot changed, plus the but() post-conditions (same object when nothing changes; equal to a fresh construction; metadata copied, not shared; ==/hash ignore metadata).',
        note='Bounded schedule length and a fixed set of 16 seed ASTs chosen for type openness; fresh construction is built with the same constructor arguments.',
        technique='TLC enumeration of call schedules (MC_Sched) replayed on real objects + stateful trace validation (T_C16)', design='5/C16'),
    'C06': dict(
        text='The session schedule Parse;Str;Parse;Str is run on every sentence of the TLC-enumerated languages and typed families plus a pool of time-bound spellings, n-ary disjunctions and constants; T_C06 checks that the printed text parses back, that the second AST equals the first (structure, types, implementation ==, hash), that the second print equals the first, and - keeping the printed forms seen so far as its state - that printing is injective on ASTs and on references.',
        note='Injectivity is checked within each validation shard; bounded languages.',
        technique='stateful trace validation (T_C06) of round-trip schedules over TLC-generated inputs', design='5/C06'),
    'C07': dict(
        text='TLC enumerates every token sequence up to a length bound over the terminal alphabet (HplTokenSeq); these, random longer sequences, single/double token mutants of the enumerated valid sentences, character noise and deeply nested texts are fed to every parser entry point; T_C07 classifies each outcome (AST or a documented error; ValueError only with an unknown function name) and, with the memo of first results as its state, requires every later call with the same text - on the same long-lived parser object after thousands of other calls, on a second object in another order, on fresh objects in all orders of small sets, on parser objects made with the documented debug switch, through the module-level parse_* helpers - to give the same outcome and the same AST.',
        note='Arbitrary Unicode cannot be enumerated by TLC; it is sampled and only classified. Bounded lengths.',
        technique='TLC enumeration of token sequences + stateful trace validation (T_C07)', design='5/C07'),
    'C02': dict(
        text='TLC enumerates the shape space of HplShapes (every scope kind x pattern kind x alias/reference placement over aliases {none,A,B} for all-simple events - 5880 shapes, exhaustive - plus references inside quantifier bodies and domains, quantifier-hygiene faults, disjunctions with sibling references, shared aliases and duplicate channels); every shape is brought into being four ways (parsed, built through the constructor API from the tree the grammar assigns, reached by but() from a valid property, built from predicates that were derived by the substitution API from predicates already used inside another valid property) and T_C02 compares accept/reject and the error class with HplScoping!Accept. A model-level theorem ties the rule to the trace semantics: on every trace of the message-bus machine (HplMonitor) up to a length bound, a sampled shape that Accept admits is never evaluated with an unbound alias (invariant BindingSufficient), and shapes rejected for an unbound or late reference are (must-fail instance).',
        note='Two shape classes are deliberately not judged (same alias on two alternatives of one disjunction; terminator alias equal to a pattern alias) and are counted in the evidence.',
        technique='TLC enumeration of property shapes (MC_Shapes) + trace validation against HplScoping (T_C02)', design='5/C02'),
    'C11': dict(
        text='TLC enumerates every scope kind x pattern kind x disjunction width 1..4 in each event position (1400 shapes, exhaustive) plus the disjunctive alias shapes; each is parsed, decorated with metadata on property/scope/pattern/events and random time bounds (and rebuilt left-nested through the API), and T_C11 requires the recorded canonical_form output - projected with types, times and metadata - to equal HplProps!CanonicalForm element by element, plus same-object, metadata-not-shared and idempotence facts.',
        note='Predicates/aliases inside the shapes come from a small pool; the alias-bound-by-some-alternatives shape is the recorded C14 finding and is skipped here.',
        technique='TLC enumeration of property shapes (MC_Shapes) + trace validation against HplProps!CanonicalForm (T_C11)', design='5/C11'),
    'C12': dict(
        text='Bounded model checking of the message-bus machine HplMonitor.tla: for 180 property shapes (all scopes, all patterns, the split event a disjunction, aliases, predicates over the payload, time bounds) the REAL canonical_form output is projected and given to TLC as a constant; TLC explores every timed trace up to the length bound over 6 topics x 2 payloads x time increments and checks in every state Sat(orig) <=> all parts satisfied, under both readings of scope re-activation, and the same for the spec\'s own CanonicalForm; three deliberately wrong decompositions must each produce a counterexample.',
        note='Trace semantics of HplMonitor are a modelling decision (strong finite-trace reading; docs are informal); bounds in the evidence.',
        technique='TLC bounded model checking of HplMonitor with the implementation output as a constant (MC_Monitor)', design='5/C12'),
    'C04': dict(
        text='TLC enumerates a type-directed family of predicates that are well-typed under a message schema (numbers, booleans, strings, arrays, nested messages, arrays of messages, constants; references to the current message, an aliased earlier message and quantified variables, inside indices, sets, ranges, functions and quantifiers); each is parsed inside a property and T_C04 requires acceptance, re-derives with HplTyping that every reference resolves and that the inferred type set contains the schema type, requires type_check_references to succeed - also on a freshly parsed twin and on the same object after each was checked against another schema in between - and HplAst!WT to hold.',
        note='One schema family (the message type M of the driver); a generated predicate that HplTyping does not find well-typed is reported as a machinery failure, never as a violation.',
        technique='TLC enumeration of a typed family (MC_Shapes) + trace validation against HplTyping (T_C04)', design='5/C04'),
    'C05': dict(
        text='TLC enumerates terms with exactly one definite type clash (wrong-typed literal or operator/function result in every argument position of every operator and function, range bounds, set elements, quantifier domain and condition, index; one reference required at two disjoint types; non-boolean predicate root); each is parsed as condition, predicate, inside a property and nested in a conjunction, and T_C05 requires TypeError every time after re-deriving from the signature tables alone (HplStatic!DefiniteClash) that the generated term is a definite clash.',
        note='A generated term that the spec does not classify as a definite clash is a machinery failure, not a violation.',
        technique='TLC enumeration of clash-injected terms (MC_TypedGen) + trace validation against HplStatic (T_C05)', design='5/C05'),
    'C17': dict(
        text='TLC enumerates properties placing each of 32 references (valid, unknown field at depth 1-3, field/array confusion, leaf type mismatch, literal index at/over the length of a fixed array, aliased roots) in every position of a predicate (top level, index, range bound, set element, function argument, quantifier domain and body); T_C17 decides with HplTyping!PropertyFaults whether type_check_references must succeed or fail and compares; the navigation helpers are compared with the declared field tree, the 8 integer tokens with two\'s-complement bounds built as hexadecimal strings, and token constructors with the ill-formedness rules.',
        note='One schema family; chains rooted at a quantified variable are not judged.',
        technique='TLC enumeration of reference placements (MC_Shapes) + trace validation against HplTyping (T_C17)', design='5/C17'),
    'C18': dict(
        text='The file machine HplFiles.tla is explored by TLC (every single-member file over all annotation orders/faults, every two-member file over a small annotation set; longer files sampled from the enumerated members); each file is rendered with arbitrary white space and parsed, each member is parsed alone, and T_C18 requires the same ASTs in order, exactly the own annotations, and for one invalid member the same error class as alone.',
        note='Pool of 11 member properties (7 valid, 4 invalid).',
        technique='TLC enumeration of file structures (HplFiles) + trace validation (T_C18)', design='5/C18'),
    'C19': dict(
        text='HplCli.tla models the command as a state machine whose invariants (exit 0 iff parsed, failure => 1 + diagnostic + no document, document iff asked) are model-checked; recorded runs of hpl.cli.main (in-process, all cases) and of python -m hpl (subprocess sample) over enumerated property texts and files, with and without -p / -o json, are accepted by T_C19 only if they are the observable projection of a behaviour of HplCli, with the outcome fixed by a direct parser call; strict JSON and the field-for-field mirror are decided by an independent attrs walker in the harness.',
        note='The deep JSON/AST comparison is done by the harness (encode/decode fidelity is outside what TLA+ decides); TLA+ decides the process-level properties.',
        technique='TLC model checking of HplCli + trace validation of recorded runs (T_C19)', design='5/C19'),
})

REASON_PENDING = 'check not built yet in this session (planned in DESIGN.md section 5); not claimed until its machinery exists'


def main():
    props = [json.loads(l)['id'] for l in open(os.path.join(ROOT, 'properties.jsonl'))]
    checks = []
    na = []
    for pid in props:
        mod = os.path.join(ROOT, 'harness', 'checks', pid.lower() + '.py')
        if pid in CHECKS and os.path.exists(mod):
            c = CHECKS[pid]
            checks.append({
                'property_id': pid,
                'quick_cmd': './check %s --tier quick' % pid,
                'thorough_cmd': './check %s --tier thorough' % pid,
                'evidence_file': '/verif/evidence/%s.json' % pid,
                'replay_cmd_template': './check %s --replay {path}' % pid,
                'engine': 'tlc',
                'level_claimed': {'category': 'model_checking', 'text': c['text'],
                                  'design_ref': 'DESIGN.md section ' + c['design']},
                'level_note': c['note'],
                'technique': c['technique'],
            })
        else:
            na.append({'property_id': pid, 'reason': REASON_PENDING})
    man = {
        'version': 1,
        'setup_cmd': './setup.sh',
        'hooks': {
            'guard': 'HPL_SPECS_VERIF',
            'enable': 'no source hooks are needed (sequential library; every action is observable at the public call); the harness sets HPL_SPECS_VERIF=1 anyway',
            'baseline_off_cmd': 'cd /repo && env -u HPL_SPECS_VERIF /venv/bin/python -m pytest -ra -q -p no:cacheprovider --timeout=900 --continue-on-collection-errors',
            'source_commits': [],
            'add_only': True,
        },
        'engines': [{'name': 'tlc', 'path': '/verif/spec', 'serves_properties': [c['property_id'] for c in checks],
                     'kind_free_text': 'explicit TLA+ specification (spec/*.tla) checked with TLC; conformance by replaying spec behaviours into hpl and validating recorded hpl behaviours against trace specs T_*.tla'}],
        'checks': checks,
        'not_applicable': na,
        'notes': 'Model-based verification with an explicit TLA+ specification; see DESIGN.md. known_findings.json lists recorded findings and fixes.',
    }
    with open(os.path.join(ROOT, 'MANIFEST.json'), 'w') as f:
        json.dump(man, f, indent=1)
    return man


if __name__ == '__main__':
    m = main()
    print('checks:', [c['property_id'] for c in m['checks']])
