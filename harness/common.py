"""Shared plumbing: importing hpl from /repo, seeds/tiers, evidence, known findings, reporting."""
import hashlib
import json
import os
import random
import sys
import time

ROOT = os.path.dirname(os.path.dirname(os.path.abspath(__file__)))
REPO = os.environ.get('VERIF_REPO', '/repo')
GUARD = 'HPL_SPECS_VERIF'

os.environ.setdefault('PYTHONHASHSEED', '0')


def import_hpl():
    """Import hpl from the *current working tree* of /repo (never a cached copy)."""
    src = os.path.join(REPO, 'src')
    if sys.path[0] != src:
        sys.path.insert(0, src)
    os.environ[GUARD] = '1'
    import hpl  # noqa
    here = os.path.realpath(hpl.__file__)
    if not here.startswith(os.path.realpath(src)):
        raise RuntimeError('hpl imported from %s, not from %s' % (here, src))
    return hpl


_PARSERS = {}


def parsers(fresh=False, grammar_from_sources=False, debug=False):
    """One parser object per entry point (building a Lark parser costs seconds)."""
    import_hpl()
    from hpl import parser as P
    key = 'src' if grammar_from_sources else ('dbg' if debug else 'pkg')
    if not fresh and key in _PARSERS:
        return _PARSERS[key]
    if grammar_from_sources:
        pred, full = build_grammars_from_sources()
        d = {
            'specification': P.HplParser.from_grammar(full, start='hpl_file'),
            'property': P.HplParser.from_grammar(full, start='hpl_property'),
            'predicate': P.HplParser.from_grammar(pred, start='hpl_predicate'),
            'condition': P.HplParser.from_grammar(pred, start='hpl_expression',
                                                  transform=P.predicate_from_expression),
            'expression': P.HplParser.from_grammar(pred, start='hpl_expression'),
        }
    elif debug:
        d = {
            'specification': P.specification_parser(debug=True),
            'property': P.property_parser(debug=True),
            'predicate': P.predicate_parser(debug=True),
            'condition': P.condition_parser(debug=True),
            'expression': P.expression_parser(debug=True),
        }
    else:
        d = {
            'specification': P.specification_parser(),
            'property': P.property_parser(),
            'predicate': P.predicate_parser(),
            'condition': P.condition_parser(),
            'expression': P.expression_parser(),
        }
    if not fresh:
        _PARSERS[key] = d
    return d


def build_grammars_from_sources():
    """Concatenate grammars/*.lark the way scripts/build_grammars.py does (C01: the embedded
    grammar must be the packaged sources)."""
    g = os.path.join(REPO, 'src', 'hpl', 'grammars')

    def rd(n):
        with open(os.path.join(g, n), encoding='utf-8') as f:
            return f.read()
    pred = rd('predicates.lark') + '\n' + rd('tokens.lark')
    full = rd('files.lark') + '\n' + rd('properties.lark') + '\n' + rd('predicates.lark') + '\n' + rd('tokens.lark')
    return pred, full


def tier():
    t = os.environ.get('VERIF_TIER', 'quick')
    return t if t in ('quick', 'thorough') else 'quick'


def seed():
    try:
        return int(os.environ.get('VERIF_SEED', '0'))
    except ValueError:
        return 0


def rng(salt=''):
    return random.Random('%s/%s' % (seed(), salt))


def norm_text(t):
    return ' '.join(str(t).split())


def keep(text):
    """Replay filter: with VERIF_ONLY set (by --replay) only the input with that text is driven."""
    only = os.environ.get('VERIF_ONLY')
    return only is None or norm_text(text) == norm_text(only)


def sig(obj):
    return hashlib.sha256(json.dumps(obj, sort_keys=True, default=str).encode()).hexdigest()[:16]


# --------------------------------------------------------------------------- findings

def load_findings():
    p = os.path.join(ROOT, 'known_findings.json')
    if not os.path.exists(p):
        return {'findings': [], 'fixed': []}
    with open(p) as f:
        return json.load(f)


class Report:
    """Collects violations for one property; decides KNOWN-FINDING vs VIOLATION; writes evidence."""

    def __init__(self, pid, level='model_checking'):
        self.pid = pid
        self.level = level
        self.t0 = time.time()
        self.violations = []      # dicts: signature, what, detail
        self.cov = {'states': 0, 'transitions': 0, 'traces_validated_against_impl': 0,
                    'samples': [], 'skipped': {}, 'clauses': {}}
        self.assumptions = []
        self.machinery = []

    # coverage helpers
    def add_tlc(self, res):
        self.cov['states'] += int(res.get('distinct', 0))
        self.cov['transitions'] += int(res.get('generated', 0))

    def add_traces(self, n):
        self.cov['traces_validated_against_impl'] += int(n)

    def sample(self, s, limit=12):
        if len(self.cov['samples']) < limit:
            self.cov['samples'].append(s)

    def count(self, key, n=1):
        self.cov[key] = self.cov.get(key, 0) + n

    def skip(self, cls, n=1):
        self.cov['skipped'][cls] = self.cov['skipped'].get(cls, 0) + n

    def clause(self, name, n=1):
        self.cov['clauses'][name] = self.cov['clauses'].get(name, 0) + n

    def violation(self, signature, what, detail):
        """signature: stable identification of the failing input/call site (string)."""
        self.violations.append({'signature': signature, 'what': what, 'detail': detail})

    def finish(self, extra_cov=None):
        if extra_cov:
            self.cov.update(extra_cov)
        kf = load_findings()
        known = {}
        for f in kf.get('findings', []):
            if f.get('property') == self.pid:
                known[f['signature']] = f
        new, seen_known = [], {}
        for v in self.violations:
            if v['signature'] in known:
                seen_known.setdefault(v['signature'], []).append(v)
            else:
                new.append(v)
        OUT = os.environ.get('VERIF_OUT', ROOT)   # selftests redirect evidence/replays away from /verif
        rdir = os.path.join(OUT, 'replays', self.pid)
        os.makedirs(rdir, exist_ok=True)
        for old in os.listdir(rdir):
            try:
                os.unlink(os.path.join(rdir, old))
            except OSError:
                pass
        for s, vs in sorted(seen_known.items()):
            print('KNOWN-FINDING: property=%s %s (signature %s, %d occurrence(s))'
                  % (self.pid, known[s]['what_fails'], s, len(vs)))
            with open(os.path.join(rdir, 'known-%s.json' % sig(s)), 'w') as f:
                json.dump(vs[0], f, indent=1, default=str)
        bysig = {}
        for v in new:
            bysig.setdefault(v['signature'], []).append(v)
        shown = 0
        for s, vs in sorted(bysig.items()):
            path = os.path.join(rdir, 'viol-%s.json' % sig(s))
            with open(path, 'w') as f:
                json.dump({'property': self.pid, 'signature': s, 'count': len(vs),
                           'first': vs[0], 'more': vs[1:5]}, f, indent=1, default=str)
            shown += 1
            if shown <= 40:
                print('VIOLATION property=%s replay=%s' % (self.pid, path))
                print('   what: %s' % vs[0]['what'])
                print('   signature: %s (%d occurrence(s))' % (s, len(vs)))
        if shown > 40:
            print('   (+%d more violation signatures, see %s)' % (shown - 40, rdir))
        if not self.cov['samples']:
            self.cov['samples'] = ['(no sample recorded)']
        self.cov['states'] = max(1, self.cov['states'])
        self.cov['transitions'] = max(1, self.cov['transitions'])
        self.cov['known_findings_seen'] = sorted(seen_known)
        ev = {
            'property_id': self.pid,
            'tier': tier(),
            'seed': seed(),
            'level': self.level,
            'coverage': self.cov,
            'assumptions': (self.assumptions or []) + [
                'TLC 1.8 and the CommunityModules Json reader evaluate the specification and load the recorded events correctly',
                'harness/project.py projects hpl objects faithfully (generic walk over attrs fields)',
                'bounded: the enumerated families / token bounds / valuation grids named in DESIGN.md section 12 and in this file'],
            'wall_s': round(time.time() - self.t0, 2),
            'violations': len(bysig),
        }
        os.makedirs(os.path.join(OUT, 'evidence'), exist_ok=True)
        with open(os.path.join(OUT, 'evidence', self.pid + '.json'), 'w') as f:
            json.dump(ev, f, indent=1, default=str)
        print('%s: tier=%s seed=%d states=%d transitions=%d traces=%d violations=%d known=%d wall=%.1fs'
              % (self.pid, tier(), seed(), self.cov['states'], self.cov['transitions'],
                 self.cov['traces_validated_against_impl'], len(bysig), len(seen_known),
                 time.time() - self.t0))
        return 1 if bysig else 0


CANARY_BASE = 1000000000


def split_canaries(res, canary_ids):
    """Canary events are deliberately corrupted recordings appended to a batch: the trace spec
    MUST reject them (otherwise the validator is blind -> machinery failure).
    Ids below CANARY_BASE+100 are individual canaries (each must be rejected); ids from CANARY_BASE+100
    form groups of 100 (several corruptions of the same kind applied to different events: at least one
    of each group must be rejected, since a particular corruption can be semantically harmless).
    Returns the list of genuine (id, clause) verdicts."""
    from harness.tlc import MachineryError
    flagged = {i for i, _ in res['bad']}
    groups = {}
    for c in canary_ids:
        k = c if c < CANARY_BASE + 100 else CANARY_BASE + 100 * ((c - CANARY_BASE) // 100)
        groups.setdefault(k, []).append(c)
    missing = [k for k, ids in groups.items() if not any(i in flagged for i in ids)]
    if missing:
        raise MachineryError('corrupted canary events were ACCEPTED by the trace spec: %r' % missing)
    cs = set(canary_ids)
    return [(i, c) for i, c in res['bad'] if i not in cs]
