import argparse
import importlib
import os
import sys
import traceback

HERE = os.path.dirname(os.path.abspath(__file__))
sys.path.insert(0, os.path.dirname(HERE))


def main():
    ap = argparse.ArgumentParser()
    ap.add_argument('pid')
    ap.add_argument('--tier', default=None)
    ap.add_argument('--replay', default=None)
    a = ap.parse_args()
    if a.tier:
        os.environ['VERIF_TIER'] = a.tier
    pid = a.pid.upper()
    try:
        if pid == 'SELFTEST':
            mod = importlib.import_module('harness.selftest')
            return mod.run()
        mod = importlib.import_module('harness.checks.%s' % pid.lower())
        return mod.run(replay=a.replay)
    except Exception as e:  # machinery failure: never a VIOLATION
        traceback.print_exc()
        print('MACHINERY-FAILURE property=%s %s: %s' % (pid, type(e).__name__, str(e)[:2000]))
        return 2


if __name__ == '__main__':
    sys.exit(main())
