import argparse
import importlib
import os
import sys
import traceback

HERE = os.path.dirname(os.path.abspath(__file__))
sys.path.insert(0, os.path.dirname(HERE))


def main():
    ap = argparse.ArgumentParser()
    ap.add_argument('pid')
    ap.add_argument('--tier', default=None)
    ap.add_argument('--replay', default=None)
    a = ap.parse_args()
    if a.tier:
        os.environ['VERIF_TIER'] = a.tier
    pid = a.pid.upper()
    if a.replay:
        import json
        with open(a.replay) as f:
            r = json.load(f)
        d = (r.get('first') or r).get('detail', {})
        text = d.get('text') or d.get('input') or d.get('file')
        if isinstance(text, str):
            os.environ['VERIF_ONLY'] = text
            print('replaying only the recorded input: %r' % text)
        else:
            print('replay file has no single input text; running the whole check')
    try:
        if pid == 'SELFTEST':
            mod = importlib.import_module('harness.selftest')
            return mod.run()
        mod = importlib.import_module('harness.checks.%s' % pid.lower())
        return mod.run(replay=a.replay)
    except Exception as e:  # machinery failure: never a VIOLATION
        traceback.print_exc()
        print('MACHINERY-FAILURE property=%s %s: %s' % (pid, type(e).__name__, str(e)[:2000]))
        return 2


if __name__ == '__main__':
    sys.exit(main())
