"""Projection of hpl objects to JSON values that TLC's Json module can read (DESIGN 4.1).

Walks attrs.fields generically - NOT children()/iterate(), which are under test (C15).
Conventions (TLC compares values structurally and refuses to compare different kinds at the
same position, so every multi-kind slot is a tagged tuple with the tag first):
  node           {"cls": <class name>, "dt": [base names], <field>: ..., "oid": str, "ohash": str,
                  "metadata": [[k, v], ...]}
  None           {"cls": "None"}
  literal value  ["b", bool] | ["s", str] | ["n", num, den] | ["x", repr] | ["inf", sign] | ["nan"]
  enum           member name (QuantifierType: its token 'forall'/'exists')
  operator       its token string ; function: its name
"""
from fractions import Fraction
import math

import attr

BASES = ['BOOL', 'NUMBER', 'STRING', 'ARRAY', 'RANGE', 'SET', 'MESSAGE']
LIM = 2 ** 31 - 1


def dt_names(dt):
    from hpl.types import DataType
    return [b for b in BASES if (dt.value & DataType[b].value) != 0]


def num_value(x):
    """Exact rational reading of a Python number, as a tagged tuple."""
    if isinstance(x, bool):
        return ['b', x]
    if isinstance(x, int):
        if abs(x) <= LIM:
            return ['n', x, 1]
        return ['x', repr(x)]
    if isinstance(x, float):
        if math.isnan(x):
            return ['nan']
        if math.isinf(x):
            return ['inf', 1 if x > 0 else -1]
        fr = Fraction(repr(x))
        if float(fr) == x and abs(fr.numerator) <= LIM and fr.denominator <= LIM:
            return ['n', fr.numerator, fr.denominator]
        # a folded float such as 0.3333333333333333: small rational reproducing the double
        fr2 = Fraction(x).limit_denominator(10000)
        # ... reproducing it EXACTLY: 0.7000000000000001 is not 7/10 (a value that is merely close is carried as text and
        # never equals a rational of the specification; valuations that depend on it are skipped, not judged)
        if fr2 != 0 and float(fr2) == x and abs(fr2.numerator) <= LIM:
            return ['n', fr2.numerator, fr2.denominator]
        return ['x', repr(x)]
    if isinstance(x, complex):
        return ['x', repr(x)]
    raise TypeError(x)


def lit_value(v):
    if isinstance(v, bool):
        return ['b', v]
    if isinstance(v, str):
        return ['s', v]
    return num_value(v)


def project(obj, ids=True, keep=None):
    """Project an hpl object.  keep: optional dict oid->object to pin objects alive."""
    from hpl.ast.base import HplAstObject
    from hpl.types import DataType
    from enum import Enum
    if obj is None:
        return {'cls': 'None'}
    if isinstance(obj, HplAstObject):
        d = {'cls': type(obj).__name__}
        for f in attr.fields(type(obj)):
            v = getattr(obj, f.name)
            if f.name == 'metadata':
                d['metadata'] = [[str(k), _meta(v[k])] for k in sorted(v, key=str)]
                if ids:
                    d['mid'] = str(id(v))
            elif f.name == 'data_type':
                d['dt'] = dt_names(v)
            elif f.name == 'value' and d['cls'] == 'HplLiteral':
                d['value'] = lit_value(v)
                d['vrepr'] = repr(v)
            elif f.name == 'alias':
                d['alias'] = ['none'] if v is None else ['some', str(v)]
            elif f.name == 'message_type':
                d['message_type'] = ['none'] if v is None else ['some', getattr(v, 'name', repr(v))]
            elif f.name in ('min_time', 'max_time'):
                d[f.name] = num_value(float(v)) if not isinstance(v, bool) else ['b', v]
                d[f.name + '_repr'] = repr(v)
            else:
                d[f.name] = _field(v, ids, keep)
        if d['cls'] == 'HplVarReference':
            tok = str(obj.token)
            d['name'] = tok[1:] if tok.startswith('@') else tok
        if ids:
            d['oid'] = str(id(obj))
            if keep is not None:
                keep[d['oid']] = obj
            try:
                d['ohash'] = str(hash(obj))
            except Exception as e:  # noqa
                d['ohash'] = 'unhashable:' + type(e).__name__
        return d
    return _field(obj, ids, keep)


def _meta(v):
    return v if isinstance(v, str) else repr(v)


def _field(v, ids, keep):
    from hpl.ast.base import HplAstObject
    from hpl.types import DataType, TypeToken
    from enum import Enum
    if v is None:
        return {'cls': 'None'}
    if isinstance(v, HplAstObject):
        return project(v, ids, keep)
    if isinstance(v, DataType):
        return dt_names(v)
    if isinstance(v, Enum):
        val = v.value
        return val if isinstance(val, str) else v.name
    if isinstance(v, bool):
        return v
    if isinstance(v, str):
        return str(v)
    if isinstance(v, (int, float)):
        return num_value(v)
    if isinstance(v, (tuple, list)):
        return [_field(x, ids, keep) for x in v]
    if isinstance(v, TypeToken):
        return {'cls': 'TypeToken', 'name': v.name}
    if attr.has(type(v)):
        # operator / function definitions: identified by token / name
        for key in ('token', 'name'):
            if hasattr(v, key) and any(f.name == key for f in attr.fields(type(v))):
                return str(getattr(v, key))
        return {'cls': type(v).__name__}
    return repr(v)


def signature_tables():
    """The declared operator/function tables of the implementation (for C03's table check)."""
    from hpl.ast.expressions import BuiltinBinaryOperator, BuiltinFunction, BuiltinUnaryOperator
    un = [{'token': m.value.token, 'p': dt_names(m.value.parameter), 'r': dt_names(m.value.result)}
          for m in BuiltinUnaryOperator]
    bi = [{'token': m.value.token, 'p1': dt_names(m.value.parameter1), 'p2': dt_names(m.value.parameter2),
           'r': dt_names(m.value.result)} for m in BuiltinBinaryOperator]
    fn = [{'name': m.value.name,
           'sigs': [{'ps': [dt_names(p) for p in s.parameters], 'r': dt_names(s.result),
                     'var': dt_names(s.variadic) if s.variadic is not None else []}
                    for s in m.value.overloads]} for m in BuiltinFunction]
    return {'un': un, 'bin': bi, 'fun': fn}


def strip(node):
    """Structure only: drop dt / ids / hashes / metadata (python-side twin of HplAst!Strip,
    used for building replay files and signatures, never as an oracle)."""
    if isinstance(node, dict):
        return {k: strip(v) for k, v in node.items()
                if k not in ('dt', 'oid', 'ohash', 'mid', 'metadata', 'vrepr', 'min_time_repr', 'max_time_repr')}
    if isinstance(node, list):
        return [strip(x) for x in node]
    return node
