"""Applying the rewriting API to real ASTs (shared by C03, C14, C16)."""
from harness.drive import exc_name


def applicable(obj):
    """[(name, thunk)] of the rewriting calls that make sense for obj."""
    from hpl import rewrite as R
    from hpl.ast.expressions import HplExpression
    from hpl.ast.predicates import HplPredicate
    from hpl.ast.properties import HplProperty
    from hpl.types import DataType
    calls = []
    if isinstance(obj, HplProperty):
        calls.append(('canonical_form', lambda: R.canonical_form(obj)))
        return calls
    if isinstance(obj, (HplExpression, HplPredicate)):
        calls.append(('simplify', lambda: R.simplify(obj)))
        calls.append(('replace_this_with_var:M', lambda: R.replace_this_with_var(obj, 'M')))
        for a in ('v', 'A'):
            calls.append(('replace_var_with_this:' + a, lambda a=a: R.replace_var_with_this(obj, a)))
        # a variable replaced by a FRESHLY built accessor / a parsed accessor chain (what an API user passes)
        from hpl.ast.expressions import HplFieldAccess, HplThisMessage
        # (only where the variable occurs ONCE: the one replacement object the API takes is otherwise shared between several
        # positions, and what in-place narrowing through one of them does to the others is outside the listed properties)
        if _occurrences(obj, 'v') == 1:
            calls.append(('replace_var_reference:v:=zz', lambda: obj.replace_var_reference('v', HplFieldAccess(HplThisMessage(), 'zz'))))
        if _occurrences(obj, 'A') == 1:
            calls.append(('replace_var_reference:A:=m.idx[0]', lambda: obj.replace_var_reference('A', _parsed_accessor())))
        isbool = isinstance(obj, HplPredicate) or obj.data_type == DataType.BOOL
        if isbool:
            calls.append(('split_and', lambda: R.split_and(obj)))
            for a in ('v', 'A'):
                calls.append(('refactor_reference:' + a, lambda a=a: R.refactor_reference(obj, a)))
    if isinstance(obj, HplPredicate):
        calls.append(('negate', lambda: obj.negate()))
        calls.append(('join_self', lambda: obj.join(obj)))
    return calls


def _occurrences(obj, name):
    from hpl.ast.expressions import HplVarReference
    try:
        return sum(1 for x in obj.iterate() if isinstance(x, HplVarReference) and x.name == name)
    except Exception:  # noqa
        return 0


def _parsed_accessor():
    from harness.drive import call_parser
    return call_parser('expression', 'm.idx[0]')[1]


def results_of(r):
    """Flatten a rewrite result into the list of AST objects it hands out."""
    if isinstance(r, (list, tuple)):
        out = []
        for x in r:
            out.extend(results_of(x))
        return out
    return [r]


def run_call(thunk):
    try:
        return 'ok', thunk()
    except RecursionError:
        return 'RecursionError', None
    except Exception as e:  # noqa
        return exc_name(e), e
